package main

// C17 — coercion preserves the value exactly or fails.
//
// Every case is one (source value, target type) pair run against the real code, either
//   H: a pkg/coerce helper directly (ToInt64, ToInteger[T], ToFloat64, ToFloat[T], ToBool,
//      ToString, ToBigInt, To[T]), or
//   S: a coercing schema from gozod/coerce (value and pointer constructors) carrying one check,
//      where the harness also evaluates the third sentence of the property on the
//      implementation alone: the coercing schema's (verdict, value) must equal what the
//      non-coercing schema with the same check says about the coerced value (c1 / c0).
//
// The op line carries the source exactly (integers in decimal, floats as IEEE bits), for string
// sources what TrimSpace/ToLower/ParseInt/ParseFloat/SetString returned (parameters of the
// Lean model), and after `|` the oracle tokens computed with math/big from an independent
// reading of the source (exact denotation, nearest float64/float32, documented truthy table).

import (
	"encoding/hex"
	"flag"
	"fmt"
	"math"
	"math/big"
	"os"
	"path/filepath"
	"reflect"
	"strconv"
	"strings"
	"unicode"

	"github.com/kaptinlin/gozod"
	zc "github.com/kaptinlin/gozod/coerce"
	"github.com/kaptinlin/gozod/pkg/coerce"

	"verifharness/hx"
	"verifharness/numgen"
)

// -gen DIR -repo TREE: run the translator (harness/numgen) over TREE and write DIR/CoerceDispatch.lean
// (only when its content changes), then exit.
var (
	genDir  = flag.String("gen", "", "translator mode: write the dispatch table into this directory and exit")
	genRepo = flag.String("repo", "/repo", "library working tree read by the translator")
)

func main() {
	cfg := hx.ParseFlags()
	if *genDir != "" {
		src, err := numgen.GenCoerce(*genRepo)
		if err != nil {
			fmt.Fprintln(os.Stderr, "translator:", err)
			os.Exit(4)
		}
		changed, err := numgen.WriteIfChanged(filepath.Join(*genDir, "CoerceDispatch.lean"), src)
		if err != nil {
			fmt.Fprintln(os.Stderr, "translator:", err)
			os.Exit(4)
		}
		fmt.Println("changed:", changed)
		return
	}
	if err := runC17(cfg); err != nil {
		fmt.Fprintln(os.Stderr, "harness error:", err)
		os.Exit(3)
	}
}

// ---------------------------------------------------------------------------------------------
// sources

type intKind struct {
	name   string
	signed bool
	bits   int
}

var intKinds = []intKind{
	{"i8", true, 8}, {"i16", true, 16}, {"i32", true, 32}, {"i64", true, 64}, {"int", true, 64},
	{"u8", false, 8}, {"u16", false, 16}, {"u32", false, 32}, {"u64", false, 64}, {"uint", false, 64},
}

func kindByName(n string) intKind {
	for _, k := range intKinds {
		if k.name == n {
			return k
		}
	}
	panic("kind " + n)
}

// src is one source value. kind ∈ intKinds names | f32 | f64 | bool | str | big | nil | other.
type src struct {
	kind string
	i    int64
	u    uint64
	f    float64 // f32 values are held widened; real part of a complex
	im   float64 // imaginary part of a complex
	b    bool
	s    string
	big  *big.Int
	ptr  bool // pass a pointer to the value
	sub  int  // variant of nil / other
	ext  any  // kind "x": a value of a Go numeric type no switch of pkg/coerce names (uintptr, named types)
	extT string
	extD *big.Rat // what it denotes (nil: NaN / nothing)
}

func (v src) isInt() bool { return len(v.kind) >= 2 && (v.kind[0] == 'i' || v.kind[0] == 'u') }

func (v src) base() any {
	switch v.kind {
	case "i8":
		return int8(v.i)
	case "i16":
		return int16(v.i)
	case "i32":
		return int32(v.i)
	case "i64":
		return v.i
	case "int":
		return int(v.i)
	case "u8":
		return uint8(v.u)
	case "u16":
		return uint16(v.u)
	case "u32":
		return uint32(v.u)
	case "u64":
		return v.u
	case "uint":
		return uint(v.u)
	case "f32":
		return float32(v.f)
	case "f64":
		return v.f
	case "bool":
		return v.b
	case "c128":
		return complex(v.f, v.im)
	case "c64":
		return complex64(complex(v.f, v.im))
	case "str":
		return v.s
	case "big":
		return new(big.Int).Set(v.big) // *big.Int
	case "nil":
		switch v.sub % 3 {
		case 0:
			return nil
		case 1:
			return (*int)(nil)
		default:
			return (*string)(nil)
		}
	case "x":
		return v.ext
	case "other":
		switch v.sub % 3 {
		case 0:
			return struct{}{}
		case 1:
			return []int{1}
		default:
			return map[string]int{"a": 1}
		}
	}
	panic("kind " + v.kind)
}

func (v src) goValue() any {
	x := v.base()
	if !v.ptr || v.kind == "nil" || v.kind == "big" {
		return x
	}
	rv := reflect.ValueOf(x)
	p := reflect.New(rv.Type())
	p.Elem().Set(rv)
	return p.Interface()
}

func hexOrDash(s string) string {
	if s == "" {
		return "-"
	}
	return hex.EncodeToString([]byte(s))
}

func (v src) tokens() string {
	switch v.kind {
	case "f32":
		return fmt.Sprintf("f32 %d %s", math.Float64bits(v.f), hexOrDash(strconv.FormatFloat(v.f, 'g', -1, 32)))
	case "f64":
		return fmt.Sprintf("f64 %d %s", math.Float64bits(v.f), hexOrDash(strconv.FormatFloat(v.f, 'g', -1, 64)))
	case "bool":
		return "bool " + hx.B01(v.b)
	case "c128", "c64":
		// math.Sqrt(re*re + im*im) in float64, as ToFloat64 computes it: a parameter of the model
		mag := math.Sqrt(v.f*v.f + v.im*v.im)
		return fmt.Sprintf("%s %d %d %d", v.kind, math.Float64bits(v.f), math.Float64bits(v.im), math.Float64bits(mag))
	case "big":
		return "big " + v.big.String()
	case "nil":
		return "nil"
	case "other":
		return "other"
	case "x":
		return "x " + v.extT
	case "str":
		// the library calls whose results are parameters of the model
		trim := strings.TrimSpace(v.s)
		norm := strings.ToLower(trim)
		pi, pf, pf32, pb, pb16 := "E", "E", "E", "E", "E"
		if i, err := strconv.ParseInt(trim, 10, 64); err == nil {
			pi = strconv.FormatInt(i, 10)
		}
		if f, err := strconv.ParseFloat(trim, 64); err == nil {
			pf = strconv.FormatUint(math.Float64bits(f), 10)
		}
		if f, err := strconv.ParseFloat(trim, 32); err == nil {
			pf32 = strconv.FormatUint(math.Float64bits(f), 10)
		}
		if n, ok := new(big.Int).SetString(trim, 10); ok {
			pb = n.String()
		}
		hxp := strings.HasPrefix(trim, "0x") || strings.HasPrefix(trim, "0X")
		if hxp {
			if n, ok := new(big.Int).SetString(trim[2:], 16); ok {
				pb16 = n.String()
			}
		}
		return fmt.Sprintf("str %s %s %s %s %s %s %s %s %s", hexOrDash(v.s), hx.B01(trim == ""), hexOrDash(norm), pi, pf, pf32, pb, hx.B01(hxp), pb16)
	}
	if kindByName(v.kind).signed {
		return v.kind + " " + strconv.FormatInt(v.i, 10)
	}
	return v.kind + " " + strconv.FormatUint(v.u, 10)
}

// ---------------------------------------------------------------------------------------------
// the independent oracle (math/big)

// den is what a source denotes on the extended rationals.
type den struct {
	class string // "rat" | "nan" | "+inf" | "-inf" | "none"
	r     *big.Rat
}

func (d den) token() string {
	if d.class != "rat" {
		return d.class
	}
	return "Q" + d.r.Num().String() + "/" + d.r.Denom().String()
}

func isDigit(c byte) bool { return c >= '0' && c <= '9' }
func isHex(c byte) bool {
	return isDigit(c) || (c >= 'a' && c <= 'f') || (c >= 'A' && c <= 'F')
}

// stripUnderscores accepts Go-syntax digit separators: an underscore only between two digits
// (digit test given); anything else makes the text not a numeral.
func stripUnderscores(s string, digit func(byte) bool) (string, bool) {
	var b strings.Builder
	for i := 0; i < len(s); i++ {
		if s[i] == '_' {
			if i == 0 || i == len(s)-1 || !digit(s[i-1]) || !digit(s[i+1]) {
				return "", false
			}
			continue
		}
		b.WriteByte(s[i])
	}
	return b.String(), true
}

// denoteString is the harness's own reading of "the value the source string denotes":
// surrounding white space is ignored; the blank string denotes 0 (the library's documented,
// test-pinned convention — reported with flag Z); optional sign; inf/infinity/nan words;
// decimal numerals with optional fraction and decimal exponent; 0x hexadecimal integers and
// hexadecimal floats with a binary exponent; `_` between digits. Everything else denotes nothing.
func denoteString(s string) den {
	t := strings.TrimFunc(s, unicode.IsSpace)
	if t == "" {
		return den{"rat", new(big.Rat)}
	}
	neg := false
	if t[0] == '+' || t[0] == '-' {
		neg = t[0] == '-'
		t = t[1:]
	}
	if t == "" {
		return den{class: "none"}
	}
	low := strings.ToLower(t)
	switch low {
	case "inf", "infinity":
		if neg {
			return den{class: "-inf"}
		}
		return den{class: "+inf"}
	case "nan":
		return den{class: "nan"}
	}
	var r *big.Rat
	if strings.HasPrefix(low, "0x") {
		r = parseRadix(low[2:], 16, 'p', 2, isHex)
	} else {
		r = parseRadix(low, 10, 'e', 10, isDigit)
	}
	if r == nil {
		return den{class: "none"}
	}
	if neg {
		r.Neg(r)
	}
	return den{"rat", r}
}

// parseRadix reads digits[.digits][<expChar>[+-]digits] in the given radix (exponent base
// expBase, exponent digits decimal). Returns nil when the text is not of that shape.
func parseRadix(t string, radix int, expChar byte, expBase int64, digit func(byte) bool) *big.Rat {
	mant, exp := t, ""
	if i := strings.IndexByte(t, expChar); i >= 0 {
		mant, exp = t[:i], t[i+1:]
		if exp == "" {
			return nil
		}
	} else if radix == 16 && strings.ContainsRune(t, '.') {
		return nil // a hexadecimal fraction needs a p exponent
	}
	mant, ok := stripUnderscores(mant, digit)
	if !ok {
		return nil
	}
	ip, fp := mant, ""
	if i := strings.IndexByte(mant, '.'); i >= 0 {
		ip, fp = mant[:i], mant[i+1:]
	}
	if ip == "" && fp == "" {
		return nil
	}
	for i := 0; i < len(ip); i++ {
		if !digit(ip[i]) {
			return nil
		}
	}
	for i := 0; i < len(fp); i++ {
		if !digit(fp[i]) {
			return nil
		}
	}
	n := new(big.Int)
	if ip+fp != "" {
		if _, ok := n.SetString(ip+fp, radix); !ok {
			return nil
		}
	}
	r := new(big.Rat).SetInt(n)
	scale := new(big.Int).Exp(big.NewInt(int64(radix)), big.NewInt(int64(len(fp))), nil)
	r.Quo(r, new(big.Rat).SetInt(scale))
	if exp != "" {
		eneg := false
		if exp[0] == '+' || exp[0] == '-' {
			eneg = exp[0] == '-'
			exp = exp[1:]
		}
		exp, ok := stripUnderscores(exp, isDigit)
		if !ok || exp == "" {
			return nil
		}
		for i := 0; i < len(exp); i++ {
			if !isDigit(exp[i]) {
				return nil
			}
		}
		e, err := strconv.Atoi(exp)
		if err != nil || e > 6000 {
			return nil // the generators stay far below this
		}
		p := new(big.Rat).SetInt(new(big.Int).Exp(big.NewInt(expBase), big.NewInt(int64(e)), nil))
		if eneg {
			r.Quo(r, p)
		} else {
			r.Mul(r, p)
		}
	}
	return r
}

func floatDen(f float64) den {
	switch {
	case math.IsNaN(f):
		return den{class: "nan"}
	case math.IsInf(f, 1):
		return den{class: "+inf"}
	case math.IsInf(f, -1):
		return den{class: "-inf"}
	}
	return den{"rat", new(big.Rat).SetFloat64(f)}
}

func (v src) denote() den {
	switch v.kind {
	case "f32", "f64":
		return floatDen(v.f)
	case "bool":
		if v.b {
			return den{"rat", big.NewRat(1, 1)}
		}
		return den{"rat", new(big.Rat)}
	case "str":
		return denoteString(v.s)
	case "c128", "c64":
		if v.im == 0 {
			return floatDen(v.f) // a complex number with zero imaginary part denotes its real part
		}
		return den{class: "none"}
	case "big":
		return den{"rat", new(big.Rat).SetInt(v.big)}
	case "nil", "other":
		return den{class: "none"}
	case "x":
		if v.extD == nil {
			return den{class: "none"}
		}
		return den{"rat", v.extD}
	}
	if kindByName(v.kind).signed {
		return den{"rat", new(big.Rat).SetInt64(v.i)}
	}
	return den{"rat", new(big.Rat).SetUint64(v.u)}
}

// canonF renders a float64 exactly: F<a>/<k> = a / 2^k in lowest terms (zero is F0/0; the sign
// of zero is not a mathematical value).
func canonF(f float64) string {
	switch {
	case math.IsNaN(f):
		return "nan"
	case math.IsInf(f, 1):
		return "+inf"
	case math.IsInf(f, -1):
		return "-inf"
	case f == 0:
		return "F0/0"
	}
	r := new(big.Rat).SetFloat64(f)
	d := r.Denom()
	k := d.BitLen() - 1 // the denominator of a float is a power of two
	return "F" + r.Num().String() + "/" + strconv.Itoa(k)
}

var boolWords = map[string]bool{"true": true, "1": true, "yes": true, "on": true, "y": true,
	"false": false, "0": false, "no": false, "off": false, "n": false, "": false}

// oracle renders the tokens after `|`.
func (v src) oracle() string {
	d := v.denote()
	d64, d32 := "E", "E"
	if d.class == "rat" {
		f64, _ := d.r.Float64()
		f32, _ := d.r.Float32()
		d64, d32 = canonF(f64), canonF(float64(f32))
	}
	srt := "-"
	if v.kind == "f32" || v.kind == "f64" {
		bits := 64
		if v.kind == "f32" {
			bits = 32
		}
		text := strconv.FormatFloat(v.f, 'g', -1, bits)
		srt = "0"
		switch {
		case math.IsNaN(v.f):
			if text == "NaN" {
				srt = "1"
			}
		case math.IsInf(v.f, 1):
			if text == "+Inf" {
				srt = "1"
			}
		case math.IsInf(v.f, -1):
			if text == "-Inf" {
				srt = "1"
			}
		default:
			if r, ok := new(big.Rat).SetString(text); ok {
				if bits == 64 {
					g, _ := r.Float64()
					if g == v.f {
						srt = "1"
					}
				} else {
					g, _ := r.Float32()
					if float64(g) == v.f {
						srt = "1"
					}
				}
			}
		}
	}
	bden := "E"
	if v.kind == "str" {
		w := strings.ToLower(strings.TrimFunc(v.s, unicode.IsSpace))
		if b, ok := boolWords[w]; ok {
			bden = "f"
			if b {
				bden = "t"
			}
		}
	}
	return fmt.Sprintf("| %s %s %s %s %s", d.token(), d64, d32, srt, bden)
}

// ---------------------------------------------------------------------------------------------
// running the implementation

var targets = []string{"i8", "i16", "i32", "i64", "int", "u8", "u16", "u32", "u64", "uint", "f32", "f64", "bool", "str", "big"}

func isIntTarget(t string) bool { return t[0] == 'i' || t[0] == 'u' }

// canonVal renders a coerced / parsed value (pointers dereferenced).
func canonVal(x any) string {
	rv := reflect.ValueOf(x)
	for rv.IsValid() && rv.Kind() == reflect.Pointer {
		if b, ok := rv.Interface().(*big.Int); ok {
			if b == nil {
				return "nilbig"
			}
			return "i" + b.String()
		}
		if rv.IsNil() {
			return "nilptr"
		}
		rv = rv.Elem()
	}
	if !rv.IsValid() {
		return "nil"
	}
	switch rv.Kind() {
	case reflect.Int, reflect.Int8, reflect.Int16, reflect.Int32, reflect.Int64:
		return "i" + strconv.FormatInt(rv.Int(), 10)
	case reflect.Uint, reflect.Uint8, reflect.Uint16, reflect.Uint32, reflect.Uint64:
		return "i" + strconv.FormatUint(rv.Uint(), 10)
	case reflect.Float32, reflect.Float64:
		return canonF(rv.Float())
	case reflect.Bool:
		if rv.Bool() {
			return "true"
		}
		return "false"
	case reflect.String:
		return "s" + hexOrDash(rv.String())
	}
	return fmt.Sprintf("?%T", x)
}

// denoteObs restates a float → string observation by the value the returned text denotes (the
// harness's own numeral grammar, denoteString), rounded to the source's width: `ok d<canonical float>`.
// The property asks that the result "denotes the same mathematical value as the source" — the
// spelling (1e+06 or 1000000) is not property-relevant. A text that denotes nothing stays `ok s<hex>`.
func denoteObs(t string, v src, ob string) string {
	if t != "str" || (v.kind != "f32" && v.kind != "f64") || !strings.HasPrefix(ob, "ok s") {
		return ob
	}
	rest := ob[len("ok s"):]
	tail := ""
	if i := strings.IndexByte(rest, ' '); i >= 0 {
		rest, tail = rest[:i], rest[i:]
	}
	text := ""
	if rest != "-" {
		b, err := hex.DecodeString(rest)
		if err != nil {
			return ob
		}
		text = string(b)
	}
	d := denoteString(text)
	switch d.class {
	case "rat":
		if v.kind == "f32" {
			g, _ := d.r.Float32()
			return "ok d" + canonF(float64(g)) + tail
		}
		g, _ := d.r.Float64()
		return "ok d" + canonF(g) + tail
	case "nan", "+inf", "-inf":
		return "ok d" + d.class + tail
	}
	return ob
}

func obs(x any, err error) string {
	if err != nil {
		return "err"
	}
	return "ok " + canonVal(x)
}

func toInteger(t string, v any) (any, error) {
	switch t {
	case "i8":
		return coerce.ToInteger[int8](v)
	case "i16":
		return coerce.ToInteger[int16](v)
	case "i32":
		return coerce.ToInteger[int32](v)
	case "i64":
		return coerce.ToInteger[int64](v)
	case "int":
		return coerce.ToInteger[int](v)
	case "u8":
		return coerce.ToInteger[uint8](v)
	case "u16":
		return coerce.ToInteger[uint16](v)
	case "u32":
		return coerce.ToInteger[uint32](v)
	case "u64":
		return coerce.ToInteger[uint64](v)
	case "uint":
		return coerce.ToInteger[uint](v)
	}
	panic("target " + t)
}

func toGeneric(t string, v any) (any, error) {
	switch t {
	case "i8":
		return coerce.To[int8](v)
	case "i16":
		return coerce.To[int16](v)
	case "i32":
		return coerce.To[int32](v)
	case "i64":
		return coerce.To[int64](v)
	case "int":
		return coerce.To[int](v)
	case "u8":
		return coerce.To[uint8](v)
	case "u16":
		return coerce.To[uint16](v)
	case "u32":
		return coerce.To[uint32](v)
	case "u64":
		return coerce.To[uint64](v)
	case "uint":
		return coerce.To[uint](v)
	case "f32":
		return coerce.To[float32](v)
	case "f64":
		return coerce.To[float64](v)
	case "bool":
		return coerce.To[bool](v)
	case "str":
		return coerce.To[string](v)
	case "big":
		return coerce.To[*big.Int](v)
	}
	panic("target " + t)
}

// helpersFor lists the helpers that serve a target.
func helpersFor(t string) []string {
	switch {
	case t == "i64":
		return []string{"toInt64", "toInteger", "to"}
	case isIntTarget(t):
		return []string{"toInteger", "to"}
	case t == "f64":
		return []string{"toFloat64", "toFloat", "to"}
	case t == "f32":
		return []string{"toFloat", "to"}
	case t == "bool":
		return []string{"toBool", "to"}
	case t == "str":
		return []string{"toString", "to"}
	default:
		return []string{"toBigInt", "to"}
	}
}

func callHelper(h, t string, v any) (res any, err error) {
	switch h {
	case "toInt64":
		return coerce.ToInt64(v)
	case "toInteger":
		return toInteger(t, v)
	case "toFloat64":
		return coerce.ToFloat64(v)
	case "toFloat":
		if t == "f32" {
			return coerce.ToFloat[float32](v)
		}
		return coerce.ToFloat[float64](v)
	case "toBool":
		return coerce.ToBool(v)
	case "toString":
		return coerce.ToString(v)
	case "toBigInt":
		return coerce.ToBigInt(v)
	case "to":
		return toGeneric(t, v)
	}
	panic("helper " + h)
}

// schema constructors: [0] value, [1] pointer; coercing and plain.
var coerceSchemas = map[string][]func() any{
	"i8": {func() any { return zc.Int8() }, func() any { return zc.Int8Ptr() }}, "i16": {func() any { return zc.Int16() }, func() any { return zc.Int16Ptr() }},
	"i32": {func() any { return zc.Int32() }, func() any { return zc.Int32Ptr() }}, "i64": {func() any { return zc.Int64() }, func() any { return zc.Int64Ptr() }, func() any { return zc.Integer() }, func() any { return zc.IntegerPtr() }},
	"int": {func() any { return zc.Int() }, func() any { return zc.IntPtr() }},
	"u8":  {func() any { return zc.Uint8() }, func() any { return zc.Uint8Ptr() }}, "u16": {func() any { return zc.Uint16() }, func() any { return zc.Uint16Ptr() }},
	"u32": {func() any { return zc.Uint32() }, func() any { return zc.Uint32Ptr() }}, "u64": {func() any { return zc.Uint64() }, func() any { return zc.Uint64Ptr() }},
	"uint": {func() any { return zc.Uint() }, func() any { return zc.UintPtr() }},
	"f32":  {func() any { return zc.Float32() }, func() any { return zc.Float32Ptr() }},
	"f64":  {func() any { return zc.Float64() }, func() any { return zc.Float64Ptr() }, func() any { return zc.Number() }, func() any { return zc.Float() }, func() any { return zc.NumberPtr() }},
	"bool": {func() any { return zc.Bool() }, func() any { return zc.BoolPtr() }},
	"str":  {func() any { return zc.String() }, func() any { return zc.StringPtr() }},
	"big":  {func() any { return zc.BigInt() }, func() any { return zc.BigIntPtr() }},
}
var plainSchemas = map[string][]func() any{
	"i8": {func() any { return gozod.Int8() }, func() any { return gozod.Int8Ptr() }}, "i16": {func() any { return gozod.Int16() }, func() any { return gozod.Int16Ptr() }},
	"i32": {func() any { return gozod.Int32() }, func() any { return gozod.Int32Ptr() }}, "i64": {func() any { return gozod.Int64() }, func() any { return gozod.Int64Ptr() }, func() any { return gozod.Int64() }, func() any { return gozod.Int64Ptr() }},
	"int": {func() any { return gozod.Int() }, func() any { return gozod.IntPtr() }},
	"u8":  {func() any { return gozod.Uint8() }, func() any { return gozod.Uint8Ptr() }}, "u16": {func() any { return gozod.Uint16() }, func() any { return gozod.Uint16Ptr() }},
	"u32": {func() any { return gozod.Uint32() }, func() any { return gozod.Uint32Ptr() }}, "u64": {func() any { return gozod.Uint64() }, func() any { return gozod.Uint64Ptr() }},
	"uint": {func() any { return gozod.Uint() }, func() any { return gozod.UintPtr() }},
	"f32":  {func() any { return gozod.Float32() }, func() any { return gozod.Float32Ptr() }},
	"f64":  {func() any { return gozod.Float64() }, func() any { return gozod.Float64Ptr() }, func() any { return gozod.Float64() }, func() any { return gozod.Float64() }, func() any { return gozod.Float64Ptr() }},
	"bool": {func() any { return gozod.Bool() }, func() any { return gozod.BoolPtr() }},
	"str":  {func() any { return gozod.String() }, func() any { return gozod.StringPtr() }},
	"big":  {func() any { return gozod.BigInt() }, func() any { return gozod.BigIntPtr() }},
}

// chk is the single check attached to a schema.
type chk struct {
	op    string // lt | lte | gt | gte | mul | minlen | maxlen | prefix | refine   ("none" = no check: dropped from the chain)
	bkind string // i64 | f64 | n | big | h | -
	bi    int64
	bf    float64
	bbig  *big.Int
	bs    string // prefix
}

// chainTokens: "<n> (<op> <bkind> <bval>)^n"
func chainTokens(cs []chk) string {
	parts := []string{strconv.Itoa(len(cs))}
	for _, c := range cs {
		parts = append(parts, c.tokens())
	}
	return strings.Join(parts, " ")
}

func (c chk) tokens() string {
	switch c.bkind {
	case "i64":
		return fmt.Sprintf("%s i64 %d", c.op, c.bi)
	case "f64":
		return fmt.Sprintf("%s f64 %d", c.op, math.Float64bits(c.bf))
	case "big":
		return fmt.Sprintf("%s big %s", c.op, c.bbig.String())
	case "h":
		return fmt.Sprintf("%s h %s", c.op, hexOrDash(c.bs))
	case "-":
		return c.op + " - -"
	default:
		return fmt.Sprintf("%s n %d", c.op, c.bi)
	}
}

var opMethod = map[string]string{"lt": "Lt", "lte": "Lte", "gt": "Gt", "gte": "Gte", "minlen": "Min", "maxlen": "Max", "mul": "MultipleOf", "prefix": "StartsWith"}

var bigPtrType = reflect.TypeOf((*big.Int)(nil))

// refinePred is the user refinement of the check chains (Lean: CoerceSchema.refineSpec): integers and big
// integers: even; floats: whole; bool: true; string: non-empty.
func refinePred(v any) bool {
	switch x := v.(type) {
	case int8:
		return x%2 == 0
	case int16:
		return x%2 == 0
	case int32:
		return x%2 == 0
	case int64:
		return x%2 == 0
	case int:
		return x%2 == 0
	case uint8:
		return x%2 == 0
	case uint16:
		return x%2 == 0
	case uint32:
		return x%2 == 0
	case uint64:
		return x%2 == 0
	case uint:
		return x%2 == 0
	case float32:
		return float32(math.Trunc(float64(x))) == x
	case float64:
		return math.Trunc(x) == x
	case bool:
		return x
	case string:
		return x != ""
	case *big.Int:
		return x != nil && x.Bit(0) == 0
	}
	panic(fmt.Sprintf("refinePred: %T", v))
}

// refineFn builds a func(R) bool for the schema's own Refine signature (R = T or *T).
func refineFn(fnType reflect.Type) reflect.Value {
	return reflect.MakeFunc(fnType, func(args []reflect.Value) []reflect.Value {
		v := args[0]
		for v.Kind() == reflect.Pointer && v.Type() != bigPtrType {
			if v.IsNil() {
				return []reflect.Value{reflect.ValueOf(true)}
			}
			v = v.Elem()
		}
		return []reflect.Value{reflect.ValueOf(refinePred(v.Interface()))}
	})
}

func attachAll(schema any, cs []chk) any {
	for _, c := range cs {
		schema = attach(schema, c)
	}
	return schema
}

func attach(schema any, c chk) any {
	if c.op == "none" {
		return schema
	}
	if c.op == "refine" {
		m := reflect.ValueOf(schema).MethodByName("Refine")
		return m.Call([]reflect.Value{refineFn(m.Type().In(0))})[0].Interface()
	}
	m := reflect.ValueOf(schema).MethodByName(opMethod[c.op])
	if c.op == "mul" && c.bkind != "big" && c.bi%2 == 1 {
		m = reflect.ValueOf(schema).MethodByName("Step") // the alias, for odd draws
	}
	var arg reflect.Value
	switch c.bkind {
	case "i64":
		arg = reflect.ValueOf(c.bi)
	case "f64":
		arg = reflect.ValueOf(c.bf)
	case "big":
		arg = reflect.ValueOf(new(big.Int).Set(c.bbig))
	case "h":
		arg = reflect.ValueOf(c.bs)
	default:
		arg = reflect.ValueOf(int(c.bi))
	}
	return m.Call([]reflect.Value{arg})[0].Interface()
}

func parseWith(schema any, in any) (any, error) {
	var arg reflect.Value
	if in == nil {
		arg = reflect.Zero(reflect.TypeOf((*any)(nil)).Elem())
	} else {
		arg = reflect.ValueOf(in)
	}
	res := reflect.ValueOf(schema).MethodByName("Parse").Call([]reflect.Value{arg})
	if !res[1].IsNil() {
		return nil, res[1].Interface().(error)
	}
	return res[0].Interface(), nil
}

var goTypeOf = map[string]reflect.Type{
	"i8": reflect.TypeOf(int8(0)), "i16": reflect.TypeOf(int16(0)), "i32": reflect.TypeOf(int32(0)), "i64": reflect.TypeOf(int64(0)), "int": reflect.TypeOf(int(0)),
	"u8": reflect.TypeOf(uint8(0)), "u16": reflect.TypeOf(uint16(0)), "u32": reflect.TypeOf(uint32(0)), "u64": reflect.TypeOf(uint64(0)), "uint": reflect.TypeOf(uint(0)),
	"f32": reflect.TypeOf(float32(0)), "f64": reflect.TypeOf(float64(0)), "bool": reflect.TypeOf(false), "str": reflect.TypeOf(""), "big": reflect.TypeOf((*big.Int)(nil)),
}

// exactMatch: the input already has the schema's type (directly or behind one pointer).
func exactMatch(t string, in any) bool {
	if in == nil {
		return false
	}
	ty := reflect.TypeOf(in)
	want := goTypeOf[t]
	if ty == want {
		return true
	}
	return ty.Kind() == reflect.Pointer && ty.Elem() == want
}

// runSchema returns the coercing schema's observation and the PLAIN schema's observation on
// coerce.To[T](input) (on the input itself when it already has the schema's type): the two sides of C17's
// third sentence, both on the real code, both with the same check chain.
func runSchema(t string, variant int, cs []chk, in any) (string, string) {
	var out, want string
	pm := hx.Safely(func() {
		csch := attachAll(coerceSchemas[t][variant](), cs)
		psch := attachAll(plainSchemas[t][variant](), cs)
		cv, cerr := parseWith(csch, in)
		out = obs(cv, cerr)
		if exactMatch(t, in) {
			pv, perr := parseWith(psch, in)
			want = obs(pv, perr)
		} else {
			hv, herr := toGeneric(t, in)
			if herr != nil {
				want = "err"
			} else {
				pv, perr := parseWith(psch, hv)
				want = obs(pv, perr)
			}
		}
	})
	if pm != "" {
		return "panic " + strings.ReplaceAll(pm, "\n", " "), "panic"
	}
	return out, want
}

// ---------------------------------------------------------------------------------------------
// generators

func intGrid(k intKind) []src {
	var out []src
	if k.signed {
		lo, hi := int64(-1)<<(k.bits-1), int64(1)<<(k.bits-1)-1
		seen := map[int64]bool{}
		add := func(x int64) {
			if x < lo || x > hi || seen[x] {
				return
			}
			seen[x] = true
			out = append(out, src{kind: k.name, i: x})
		}
		for _, x := range []int64{0, 1, -1, 2, -2, 3, 10, -10, 100, lo, lo + 1, hi, hi - 1, 16777217, -16777217, 123456789} {
			add(x)
		}
		for _, e := range []int{7, 8, 15, 16, 24, 25, 31, 32, 52, 53, 54, 62} {
			p := int64(1) << e
			for _, d := range []int64{-2, -1, 0, 1, 2, 3} {
				add(p + d)
				add(-p + d)
			}
		}
		// halfway cases of float64(int64): 2^53 + odd, 2^54 + 2·odd, and near MaxInt64
		// … and integers whose float64 image is a float32 tie (double rounding): 2^60 + 2^36 ± 1, 2^60 + 3·2^36 ± 1
		for _, x := range []int64{1<<53 + 1, 1<<53 + 3, 1<<54 + 2, 1<<54 + 6, 1<<62 + 1<<9, 1<<62 + 3<<9, math.MaxInt64 - 511, math.MaxInt64 - 512, math.MaxInt64 - 1023,
			1<<60 + 1<<36 + 1, 1<<60 + 1<<36 - 1, 1<<60 + 3<<36 + 1, 1<<60 + 3<<36 - 1, 1<<60 + 1<<36, 1<<24 + 1, 1<<25 + 2, 1<<25 + 6, math.MaxInt64 - 1<<38, math.MaxInt64 - 1<<39} {
			add(x)
			add(-x)
		}
		add(math.MinInt64)
		return out
	}
	hi := uint64(math.MaxUint64)
	if k.bits < 64 {
		hi = uint64(1)<<k.bits - 1
	}
	seen := map[uint64]bool{}
	add := func(x uint64) {
		if x > hi || seen[x] {
			return
		}
		seen[x] = true
		out = append(out, src{kind: k.name, u: x})
	}
	for _, x := range []uint64{0, 1, 2, 3, 10, 100, hi, hi - 1, 16777217, 123456789} {
		add(x)
	}
	for _, e := range []int{7, 8, 15, 16, 24, 25, 31, 32, 52, 53, 54, 62, 63} {
		p := uint64(1) << e
		for _, d := range []uint64{0, 1, 2, 3} {
			add(p + d)
			add(p - d)
		}
	}
	for _, x := range []uint64{1<<53 + 1, 1<<53 + 3, 1<<54 + 2, 1<<54 + 6, 1<<63 + 1<<10, 1<<63 + 3<<10, math.MaxUint64 - 1023, math.MaxUint64 - 1024, math.MaxUint64 - 2047,
		1<<60 + 1<<36 + 1, 1<<60 + 1<<36 - 1, 1<<60 + 3<<36 + 1, 1<<63 + 1<<39 + 1, 1<<63 + 1<<39 - 1, 1<<63 + 1<<39, math.MaxUint64 - 1<<39, math.MaxUint64 - 1<<40} {
		add(x)
	}
	return out
}

func floatGrid(bits int, r *hx.Rng, nRandom int) []src {
	kind := "f64"
	if bits == 32 {
		kind = "f32"
	}
	fs := []float64{0, math.Copysign(0, -1), 1, -1, 0.5, -0.5, 1.5, -1.5, 2.5, 0.1, -0.1, 3.3, 1e-7, 1e30, -1e30, 1e19, 1e20,
		math.Inf(1), math.Inf(-1), math.NaN(),
		math.MaxFloat64, -math.MaxFloat64, math.SmallestNonzeroFloat64, -math.SmallestNonzeroFloat64,
		math.MaxFloat32, -math.MaxFloat32, math.SmallestNonzeroFloat32, -math.SmallestNonzeroFloat32,
		math.Nextafter(math.MaxFloat32, math.Inf(1)), math.Nextafter(math.MaxFloat32, 0),
		// the float32 rounding threshold 2^128 − 2^103 (a tie that rounds up to 2^128 = overflow) and neighbours
		math.Ldexp(1, 128) - math.Ldexp(1, 103), math.Nextafter(math.Ldexp(1, 128)-math.Ldexp(1, 103), 0), math.Nextafter(math.Ldexp(1, 128)-math.Ldexp(1, 103), math.Inf(1)),
		math.Ldexp(1, 128), -math.Ldexp(1, 128),
		// float32 subnormal edge: 2^-149, its half (tie → 0), just above the half, 1.5·2^-149 (tie → 2·2^-149), 2^-126 neighbours
		math.Ldexp(1, -150), math.Nextafter(math.Ldexp(1, -150), 1), math.Nextafter(math.Ldexp(1, -150), 0), math.Ldexp(3, -150), math.Ldexp(5, -150), math.Ldexp(1, -151),
		math.Ldexp(1, -126), math.Nextafter(math.Ldexp(1, -126), 0), math.Nextafter(math.Ldexp(1, -126), 1), math.Ldexp(1, -127) + math.Ldexp(1, -150),
		// float32 halfway cases in the normal range: 1 + 2^-24 (tie → even = 1), 1 + 3·2^-24 (tie → 1 + 2^-22), just off the ties
		1 + math.Ldexp(1, -24), 1 + math.Ldexp(3, -24), math.Nextafter(1+math.Ldexp(1, -24), 2), math.Nextafter(1+math.Ldexp(1, -24), 0),
		16777217, 16777219, 16777218, 33554434, 33554438,
		127.5, 128.5, -128.5, 255.5, 256.5, 32767.5, 65535.5, 2147483647.5, 4294967295.5,
	}
	for _, e := range []int{7, 8, 15, 16, 23, 24, 31, 32, 52, 53, 54, 62, 63, 64, 65, 100, 127} {
		p := math.Ldexp(1, e)
		for _, s := range []float64{1, -1} {
			fs = append(fs, s*p, s*math.Nextafter(p, 0), s*math.Nextafter(p, math.Inf(1)), s*(p+1), s*(p-1), s*(p-2), s*(p+0.5), s*(p-0.5))
			if bits == 32 {
				p32 := float32(p)
				fs = append(fs, s*float64(math.Nextafter32(p32, 0)), s*float64(math.Nextafter32(p32, float32(math.Inf(1)))))
			}
		}
	}
	for i := 0; i < nRandom; i++ {
		switch r.Intn(4) {
		case 0: // random bit pattern
			fs = append(fs, math.Float64frombits(r.Next()))
		case 1: // random whole number around a power of two
			e := r.Intn(70)
			fs = append(fs, math.Copysign(math.Trunc(math.Ldexp(1+float64(r.Intn(1<<20))/float64(1<<20), e)), float64(r.Intn(2))-0.5))
		case 2: // random value with a fraction
			fs = append(fs, math.Copysign(float64(r.Intn(70000))+float64(r.Intn(1024))/1024, float64(r.Intn(2))-0.5))
		default: // random float32-range pattern
			fs = append(fs, float64(math.Float32frombits(uint32(r.Next()))))
		}
	}
	seen := map[uint64]bool{}
	var out []src
	for _, f := range fs {
		if bits == 32 {
			f = float64(float32(f))
		}
		b := math.Float64bits(f)
		if math.IsNaN(f) {
			b = 0x7ff8000000000001
		}
		if seen[b] {
			continue
		}
		seen[b] = true
		out = append(out, src{kind: kind, f: f})
	}
	return out
}

func stringGrid(r *hx.Rng) []src {
	base := []string{"", " ", "\t\n", "0", "-0", "+0", "1", "-1", "+1", "007", "-007", "42", " 42 ", "\t42\n", " 42　", "4 2", "\x0042",
		"127", "128", "-128", "-129", "255", "256", "32767", "32768", "-32768", "-32769", "65535", "65536",
		"2147483647", "2147483648", "-2147483648", "-2147483649", "4294967295", "4294967296",
		"16777216", "16777217", "9007199254740992", "9007199254740993", "9007199254740995",
		"9223372036854775807", "9223372036854775808", "-9223372036854775808", "-9223372036854775809", "+9223372036854775807",
		"18446744073709551615", "18446744073709551616", "-18446744073709551615", "123456789012345678901234567890",
		"1.0", "1.", ".5", "-.5", "1.5", "-1.5", "0.1", "3.14", "1e3", "1E3", "1e+3", "1e-1", "1.5e1", "15e-1", "1e19", "1e20", "-1e19", "9.223372036854775807e18",
		"1e400", "-1e400", "1e-400", "1e309", "1.7976931348623157e308", "1.7976931348623158e308", "1.7976931348623159e308", "4.9e-324", "2.4703282292062327e-324", "2.4703282292062328e-324",
		"340282346638528859811704183484516925440", "340282356779733661637539395458142568447", "340282356779733661637539395458142568448", "3.4028235e38", "3.4028236e38", "3.5e38", "1e-45", "7e-46", "7.1e-46",
		"1.00000005960464477539062", "1.000000059604644775390625", "1.00000005960464477539063", "16777217.0",
		"0x10", "0X1F", "0xff", "-0x10", "0x+1F", "0X-ff", " 0x-0 ", "0x", "0xg", "0x1p-2", "0x1.8p1", "0x1p4", "0x_ff", "0xf_f", "1_000", "1__000", "_1", "1_", "1_000.5", "0b101", "0o17", "017",
		"inf", "Inf", "-inf", "+Inf", "infinity", "-Infinity", "INF", "nan", "NaN", "-nan", "+nan", "in", "infinit",
		"true", "TRUE", " True ", "yes", "YES", "on", "On", "y", "Y", "false", "False", "no", "off", "n", "N", "t", "f", "T", "2", "truee", "ｙ", "enabled",
		"१२३", "1,000", "12abc", "abc", "--1", "+-1", "1e", "e3", "1e+", ".", "+", "-", "1 e3", "١",
	}
	var out []src
	for _, s := range base {
		out = append(out, src{kind: "str", s: s})
	}
	// decimal texts of integer grid values with decorations
	deco := []func(string) string{
		func(s string) string { return s }, func(s string) string { return " " + s }, func(s string) string { return s + "\n" },
		func(s string) string { return s + ".0" }, func(s string) string { return s + ".5" }, func(s string) string { return s + "e0" },
		func(s string) string { return "+" + s }, func(s string) string { return "00" + s }, func(s string) string { return s + "0e-1" },
	}
	for _, k := range []intKind{intKinds[3], intKinds[8]} {
		for _, v := range intGrid(k) {
			var t string
			if k.signed {
				t = strconv.FormatInt(v.i, 10)
			} else {
				t = strconv.FormatUint(v.u, 10)
			}
			d := hx.Pick(r, deco)
			if strings.HasPrefix(t, "-") && (d("1") == "+1" || d("1") == "001") {
				d = deco[0]
			}
			out = append(out, src{kind: "str", s: d(t)})
		}
	}
	// shortest decimal texts of float grid values
	for _, v := range floatGrid(64, r, 60) {
		out = append(out, src{kind: "str", s: strconv.FormatFloat(v.f, 'g', -1, 64)})
		if r.Chance(30) {
			out = append(out, src{kind: "str", s: strconv.FormatFloat(v.f, 'f', -1, 64)})
		}
	}
	seen := map[string]bool{}
	var uniq []src
	for _, v := range out {
		if len(v.s) > 400 || seen[v.s] {
			continue
		}
		seen[v.s] = true
		uniq = append(uniq, v)
	}
	return uniq
}

// exactDecimal renders a rational with a power-of-two denominator exactly.
func exactDecimal(r *big.Rat) string {
	k := r.Denom().BitLen() - 1
	return r.FloatString(k)
}

// randomNumerals: seeded numeric texts — plain decimals with fraction/exponent, texts sitting
// exactly on / just above / just below a float32 or float64 rounding tie (where converting
// through float64 first rounds twice), and one-character corruptions of valid numerals.
func randomNumerals(r *hx.Rng, n int) []src {
	digits := func(k int) string {
		b := make([]byte, k)
		for i := range b {
			b[i] = byte('0' + r.Intn(10))
		}
		return string(b)
	}
	var out []src
	for i := 0; i < n; i++ {
		var t string
		switch r.Intn(5) {
		case 0:
			t = digits(1 + r.Intn(20))
			if r.Chance(50) {
				t += "." + digits(r.Intn(20))
			}
			if r.Chance(40) {
				t += hx.Pick(r, []string{"e", "E"}) + hx.Pick(r, []string{"", "+", "-"}) + strconv.Itoa(r.Intn(60))
			}
			t = hx.Pick(r, []string{"", "", "-", "+"}) + t
		case 1, 2:
			// midpoint between two adjacent floats (float32 for case 1, float64 for case 2), ± a hair
			var lo, hi float64
			if r.Intn(2) == 0 || true {
				e := r.Intn(100) - 50
				if i%7 == 0 {
					e = -149 + r.Intn(30) // float32 subnormal range
				}
				x := float32(math.Ldexp(1+float64(r.Intn(1<<23))/float64(1<<23), e))
				lo, hi = float64(x), float64(math.Nextafter32(x, float32(math.Inf(1))))
			}
			if r.Intn(5) == 4 { // a float64 tie instead
				x := math.Ldexp(1+float64(r.Next()>>12)/float64(uint64(1)<<52), r.Intn(90)-30)
				lo, hi = x, math.Nextafter(x, math.Inf(1))
			}
			mid := new(big.Rat).Add(new(big.Rat).SetFloat64(lo), new(big.Rat).SetFloat64(hi))
			mid.Quo(mid, big.NewRat(2, 1))
			hair := new(big.Rat).Mul(mid, new(big.Rat).SetFrac(big.NewInt(1), new(big.Int).Lsh(big.NewInt(1), 70)))
			switch r.Intn(3) {
			case 0:
				t = exactDecimal(mid)
			case 1:
				t = exactDecimal(new(big.Rat).Add(mid, hair))
			default:
				t = exactDecimal(new(big.Rat).Sub(mid, hair))
			}
			if r.Chance(30) {
				t = "-" + t
			}
		case 3:
			k := hx.Pick(r, intKinds)
			g := intGrid(k)
			v := hx.Pick(r, g)
			if k.signed {
				t = strconv.FormatInt(v.i+int64(r.Intn(3)-1)*int64(r.Intn(2)), 10)
			} else {
				t = strconv.FormatUint(v.u, 10)
			}
			t = hx.Pick(r, []string{"", " ", "\t", "+", "0"}) + t + hx.Pick(r, []string{"", " ", "\n", ".0", ".00", "e0", ".5"})
			if strings.HasPrefix(t, "+-") || strings.HasPrefix(t, "0-") {
				t = t[1:]
			}
		default:
			base := hx.Pick(r, []string{"123", "-45.5", "1e10", "0x1F", "6.02e23", "18446744073709551615", "0.000001", "1_000"})
			pos := r.Intn(len(base) + 1)
			t = base[:pos] + hx.Pick(r, []string{" ", "+", "-", "_", ".", "e", "E", "x", "0", "9", "p"}) + base[pos:]
		}
		if len(t) <= 400 {
			out = append(out, src{kind: "str", s: t})
		}
	}
	return out
}

func bigGrid() []src {
	var out []src
	add := func(b *big.Int) {
		out = append(out, src{kind: "big", big: b}, src{kind: "big", big: new(big.Int).Neg(b)})
	}
	pow := func(e uint) *big.Int { return new(big.Int).Lsh(big.NewInt(1), e) }
	for _, x := range []int64{0, 1, 2, 255, 1<<53 + 1, 1<<53 + 3, math.MaxInt64} {
		add(big.NewInt(x))
	}
	for _, e := range []uint{63, 64, 65, 100, 127, 128, 200, 1023, 1024, 1025, 2000} {
		p := pow(e)
		add(p)
		add(new(big.Int).Sub(p, big.NewInt(1)))
		add(new(big.Int).Add(p, big.NewInt(1)))
	}
	maxF := new(big.Int).Sub(pow(1024), pow(970)) // MaxFloat64
	add(maxF)
	add(new(big.Int).Add(maxF, pow(969)))                                      // the tie that rounds to 2^1024
	add(new(big.Int).Sub(new(big.Int).Add(maxF, pow(969)), big.NewInt(1)))     // just below it
	add(new(big.Int).Add(pow(200), pow(147)))                                  // tie at 53 bits → even
	add(new(big.Int).Add(new(big.Int).Add(pow(200), pow(148)), pow(147)))      // tie → up
	add(new(big.Int).Add(new(big.Int).Add(pow(200), pow(147)), big.NewInt(1))) // above the tie
	add(new(big.Int).Exp(big.NewInt(10), big.NewInt(400), nil))
	return out
}

// checkFor picks a check whose bound sits next to the value the coercion should produce.
// chainFor: the bound check next to the value (as before), then — round 4c — MultipleOf / Step (integer, float and
// BigInt targets), a prefix (strings), a user refinement (every target); up to four checks.
func chainFor(r *hx.Rng, t string, v src) []chk {
	var cs []chk
	if c := checkFor(r, t, v); c.op != "none" {
		cs = append(cs, c)
	}
	d := v.denote()
	if r.Chance(30) {
		switch {
		case isIntTarget(t):
			div := hx.Pick(r, []int64{0, 1, -1, 2, -2, 3, 7, 10, 128, 1 << 53, math.MinInt64})
			if d.class == "rat" && d.r.IsInt() && d.r.Num().IsInt64() && r.Chance(40) {
				div = d.r.Num().Int64() + int64(r.Intn(3)-1)
			}
			cs = append(cs, chk{op: "mul", bkind: "i64", bi: div})
		case t == "f32" || t == "f64":
			cs = append(cs, chk{op: "mul", bkind: "f64", bf: hx.Pick(r, []float64{0, 1, 2, 0.5, 0.1, 3, 1e-3, 1e7, -4}), bi: int64(r.Intn(2))})
		case t == "big":
			div := hx.Pick(r, []*big.Int{big.NewInt(0), big.NewInt(1), big.NewInt(2), big.NewInt(-3), big.NewInt(10000000), new(big.Int).Lsh(big.NewInt(1), 53), new(big.Int).Lsh(big.NewInt(1), 64)})
			if d.class == "rat" && d.r.IsInt() && r.Chance(40) {
				div = new(big.Int).Add(d.r.Num(), big.NewInt(int64(r.Intn(3)-1)))
			}
			cs = append(cs, chk{op: "mul", bkind: "big", bbig: div})
		}
	}
	if t == "str" && r.Chance(30) && v.kind != "f32" && v.kind != "f64" {
		ascii := true
		for i := 0; i < len(v.s); i++ {
			if v.s[i] >= 0x80 {
				ascii = false
			}
		}
		if ascii {
			p := hx.Pick(r, []string{"", "1", "-", " ", "t", "0x", "12"})
			if v.kind == "str" && len(v.s) > 0 && r.Chance(50) {
				p = v.s[:1+r.Intn(len(v.s))]
			}
			cs = append(cs, chk{op: "prefix", bkind: "h", bs: p})
		}
	}
	if r.Chance(30) && !(t == "str" && (v.kind == "f32" || v.kind == "f64")) {
		cs = append(cs, chk{op: "refine", bkind: "-"})
	}
	return cs
}

func checkFor(r *hx.Rng, t string, v src) chk {
	if r.Chance(25) || t == "bool" {
		return chk{op: "none", bkind: "n"}
	}
	d := v.denote()
	if t == "big" {
		// a *big.Int bound next to the value (BigInt().Gt/Gte/Lt/Lte)
		b := big.NewInt(int64(r.Intn(7) - 3))
		if d.class == "rat" {
			b = new(big.Int).Quo(d.r.Num(), d.r.Denom())
			b.Add(b, big.NewInt(int64(r.Intn(3)-1)))
		}
		return chk{op: hx.Pick(r, []string{"lt", "lte", "gt", "gte"}), bkind: "big", bbig: b}
	}
	if t == "str" {
		for i := 0; i < len(v.s); i++ {
			if v.s[i] >= 0x80 {
				return chk{op: "none", bkind: "n"} // length of non-ASCII text is C01's reading, not C17's
			}
		}
		if v.kind == "f32" || v.kind == "f64" {
			// the text of a float is judged by the value it denotes, not by its spelling (see denoteObs)
			return chk{op: "none", bkind: "n"}
		}
		n := int64(r.Intn(6))
		if v.kind == "str" {
			n = int64(len(v.s)) + int64(r.Intn(3)) - 1
			if n < 0 {
				n = 0
			}
		}
		return chk{op: hx.Pick(r, []string{"minlen", "maxlen"}), bkind: "n", bi: n}
	}
	op := hx.Pick(r, []string{"lt", "lte", "gt", "gte"})
	if isIntTarget(t) {
		b := int64(r.Intn(7) - 3)
		if d.class == "rat" {
			f, _ := d.r.Float64()
			if f > -9.2e18 && f < 9.2e18 {
				n := new(big.Int).Quo(d.r.Num(), d.r.Denom())
				b = n.Int64() + int64(r.Intn(3)-1)
			} else if f > 0 {
				b = math.MaxInt64 - int64(r.Intn(2))
			} else {
				b = math.MinInt64 + int64(r.Intn(2))
			}
		}
		return chk{op: op, bkind: "i64", bi: b}
	}
	bf := float64(r.Intn(7) - 3)
	if d.class == "rat" {
		f, _ := d.r.Float64()
		if t == "f32" {
			f = float64(float32(f))
		}
		if !math.IsInf(f, 0) {
			switch r.Intn(3) {
			case 0:
				bf = f
			case 1:
				bf = math.Nextafter(f, math.Inf(1))
			default:
				bf = math.Nextafter(f, math.Inf(-1))
			}
		}
	}
	return chk{op: op, bkind: "f64", bf: bf}
}

// ---------------------------------------------------------------------------------------------

// Named numeric types and uintptr: Go numeric kinds that no type switch of pkg/coerce names.  The
// code answers "unsupported" for each (a failure, which the statement allows); the model's source
// for them is `other` and the oracle knows the value they hold, so a new `case uintptr:` /
// reflect.Kind-based branch that wraps or truncates is exercised on concrete boundary values.
type (
	myInt     int
	myInt8    int8
	myInt16   int16
	myInt32   int32
	myInt64   int64
	myUint    uint
	myUint8   uint8
	myUint16  uint16
	myUint32  uint32
	myUint64  uint64
	myUintptr uintptr
	myFloat32 float32
	myFloat64 float64
)

func extGrid() []src {
	var out []src
	add := func(t string, x any, d *big.Rat) { out = append(out, src{kind: "x", ext: x, extT: t, extD: d}) }
	ri := func(i int64) *big.Rat { return new(big.Rat).SetInt64(i) }
	ru := func(u uint64) *big.Rat { return new(big.Rat).SetUint64(u) }
	rf := func(f float64) *big.Rat {
		if math.IsNaN(f) || math.IsInf(f, 0) {
			return nil
		}
		return new(big.Rat).SetFloat64(f)
	}
	for _, u := range []uint64{0, 1, 127, 128, 255, 256, 32767, 32768, 65535, 65536, 1<<31 - 1, 1 << 31, 1<<32 - 1, 1 << 32, 1 << 53, 1<<53 + 1,
		1<<63 - 1, 1 << 63, 1<<63 + 1, math.MaxUint64 - 1, math.MaxUint64} {
		add("uintptr", uintptr(u), ru(u))
		add("myUintptr", myUintptr(u), ru(u))
		add("myUint64", myUint64(u), ru(u))
		add("myUint", myUint(u), ru(u))
	}
	for _, i := range []int64{0, 1, -1, 127, 128, -128, -129, 255, 256, 32767, 32768, -32768, -32769, 1<<31 - 1, 1 << 31, -(1 << 31), -(1 << 31) - 1,
		1 << 32, 1<<53 + 1, math.MaxInt64, math.MinInt64} {
		add("myInt64", myInt64(i), ri(i))
		add("myInt", myInt(i), ri(i))
	}
	for _, i := range []int64{0, 1, -1, 127, -128} {
		add("myInt8", myInt8(i), ri(i))
		add("myInt16", myInt16(i*256+i), ri(int64(int16(i*256+i))))
		add("myInt32", myInt32(i*65536*128+i), ri(int64(int32(i*65536*128+i))))
	}
	for _, u := range []uint64{0, 1, 255} {
		add("myUint8", myUint8(u), ru(u))
		add("myUint16", myUint16(u*257), ru(u*257))
		add("myUint32", myUint32(u*16843009), ru(u*16843009))
	}
	for _, f := range []float64{0, 1, -1, 0.5, -0.5, 1.5, 255.5, 1 << 24, 1<<24 + 2, 1 << 53, 1 << 63, -(1 << 63), 1 << 64, 1e30, math.MaxFloat32, math.Inf(1), math.Inf(-1), math.NaN()} {
		add("myFloat64", myFloat64(f), rf(f))
		add("myFloat32", myFloat32(float32(f)), rf(float64(float32(f))))
	}
	return out
}

// textCases: boundary-directed texts for the text primitives (P lines: strings.TrimSpace,
// strconv.ParseInt / ParseUint at 8/16/32/64 bits, big.Int.SetString base 10 and 16).
func textCases(r *hx.Rng, nRandom int) []string {
	seen := map[string]bool{}
	var out []string
	add := func(s string) {
		if !seen[s] {
			seen[s] = true
			out = append(out, s)
		}
	}
	spaces := []string{" ", "\t", "\n", "\v", "\f", "\r", "\u0085", "\u00a0", "\u1680", "\u2000", "\u2005", "\u200a", "\u2028", "\u2029", "\u202f", "\u205f", "\u3000"}
	notSpaces := []string{"\u200b", "\ufeff", "\u180e", "\x00", "\x1f", "\xa0", "\x85", "\xc2", "\xe2\x80", "\xe2\x80\x8b", "\xe3\x80", "\u2060", "\u00ad"}
	decorate := func(t string) {
		add(t)
		digits, sign := t, ""
		if strings.HasPrefix(t, "-") || strings.HasPrefix(t, "+") {
			sign, digits = t[:1], t[1:]
		}
		if sign == "" {
			add("+" + t)
		}
		add(sign + "0" + digits)
		add(sign + "000" + digits)
		add(sign + strings.Repeat("0", 70) + digits)
		add(" " + t)
		add(t + " ")
		add(hx.Pick(r, spaces) + t + hx.Pick(r, spaces))
		add(hx.Pick(r, spaces) + hx.Pick(r, spaces) + t)
		add(hx.Pick(r, notSpaces) + t)
		add(t + hx.Pick(r, notSpaces))
		add(" " + hx.Pick(r, notSpaces) + t + " ")
		if len(digits) > 1 {
			k := 1 + r.Intn(len(digits)-1)
			add(sign + digits[:k] + "_" + digits[k:])
			add(sign + digits[:k] + " " + digits[k:])
			add(sign + digits[:k] + "." + digits[k:])
			add(sign + digits[:k] + "e" + digits[k:])
		}
		add(sign + "_" + digits)
		add(t + "_")
		add(sign + sign + digits)
		add("-+" + digits)
		add("+-" + digits)
		add(sign + " " + digits)
		add(t + ".")
		add(t + ".0")
		add(t + "e0")
		add("0x" + t)
		add("0x" + digits)
		add("0X" + sign + digits)
		add(t + "\x00")
		// one-character corruption
		if len(t) > 0 {
			b := []byte(t)
			b[r.Intn(len(b))] = hx.Pick(r, []byte("/:+-_ aAfFgxX\x80\xc2٠"))
			add(string(b))
		}
	}
	one := big.NewInt(1)
	var limits []*big.Int
	for _, w := range []uint{7, 8, 15, 16, 31, 32, 63, 64} {
		p := new(big.Int).Lsh(one, w)
		for d := int64(-2); d <= 2; d++ {
			limits = append(limits, new(big.Int).Add(p, big.NewInt(d)))
			limits = append(limits, new(big.Int).Neg(new(big.Int).Add(p, big.NewInt(d))))
		}
	}
	for k := 0; k <= 22; k++ {
		p := new(big.Int).Exp(big.NewInt(10), big.NewInt(int64(k)), nil)
		limits = append(limits, p, new(big.Int).Sub(p, one), new(big.Int).Neg(p))
	}
	for _, x := range []string{"0", "-0", "7", "42", "99999999999999999999", "184467440737095516150", "18446744073709551616000", "-99999999999999999999",
		"340282366920938463463374607431768211456", "12345678901234567890123456789012345678901234567890"} {
		n, _ := new(big.Int).SetString(x, 10)
		limits = append(limits, n)
	}
	for _, n := range limits {
		decorate(n.String())
	}
	for _, t := range []string{"", " ", "+", "-", "_", "0_1", "1_", "__", "+ 1", "- 1", "1 2", "١٢٣", "１２", "0x", "0X", "0x1F", "0X1f", "0xff", "0xFG", "0x+1F", "0x-ff", "0x_1", "0x 1",
		"-0x1F", "+0x1F", "0b101", "0o17", "017", "1e3", "1.0", ".5", "1,000", "1'000", "NaN", "inf", "true", "\u00a0", "\u3000\u2003", "\xc2\xa0\xc2", "\xe2\x80\x80\x80",
		" 7\xc2", "\xc27 ", "\xe2\x80 7", "7 \xe2\x80", "7\xe2\x80\xa8", "7\xe2\x80\xa7", "\xe2\x81\x9f7", "\xe2\x81\x9e7", "\xe1\x9a\x807", "\xe1\x9a\x817"} {
		add(t)
	}
	for _, w := range []string{"true", "false", "yes", "no", "on", "off", "y", "n", "1", "0", "t", "f", "TRUE", "True", "tRuE", "YES", "Off", "N", "truee", "ye s", "İ", "K", "ON\u00a0", "\u2003Yes"} {
		add(w)
		add(" " + w + "\t")
		add(strings.ToUpper(w))
	}
	alphabet := []byte("0123456789012345678901234567890123456789+-_ \t.exXaAfF")
	for i := 0; i < nRandom; i++ {
		switch r.Intn(3) {
		case 0: // random text over the numeral alphabet
			n := r.Intn(25)
			b := make([]byte, n)
			for j := range b {
				b[j] = hx.Pick(r, alphabet)
			}
			add(string(b))
		case 1: // a random 64-bit value, decorated
			u := r.Next() >> uint(r.Intn(64))
			t := strconv.FormatUint(u, 10)
			if r.Chance(50) {
				t = "-" + t
			}
			decorate(t)
		default: // digits around the 19/20-digit boundary
			n := 17 + r.Intn(5)
			b := make([]byte, n)
			for j := range b {
				b[j] = byte('0' + r.Intn(10))
			}
			t := string(b)
			if r.Chance(40) {
				t = "-" + t
			}
			add(t)
			add(hx.Pick(r, spaces) + t)
		}
	}
	return out
}

func optI(i int64, err error) string {
	if err != nil {
		return "E"
	}
	return strconv.FormatInt(i, 10)
}
func optU(u uint64, err error) string {
	if err != nil {
		return "E"
	}
	return strconv.FormatUint(u, 10)
}

// textObs is what the real strings / strconv / math/big functions answer for s (the calls
// pkg/coerce makes, plus ParseInt/ParseUint at the narrower widths).
func textObs(s string) string {
	t := strings.TrimSpace(s)
	nm := "n*"
	ascii := true
	for i := 0; i < len(t); i++ {
		if t[i] >= 0x80 {
			ascii = false
		}
	}
	if ascii {
		nm = "n" + hexOrDash(strings.ToLower(t))
	}
	parts := []string{"p", hexOrDash(t), nm}
	for _, w := range []int{8, 16, 32, 64} {
		parts = append(parts, optI(strconv.ParseInt(t, 10, w)))
	}
	for _, w := range []int{8, 16, 32, 64} {
		parts = append(parts, optU(strconv.ParseUint(t, 10, w)))
	}
	b10 := "E"
	if n, ok := new(big.Int).SetString(t, 10); ok {
		b10 = n.String()
	}
	hp := strings.HasPrefix(t, "0x") || strings.HasPrefix(t, "0X")
	b16 := "-"
	if hp {
		b16 = "E"
		if n, ok := new(big.Int).SetString(t[2:], 16); ok {
			b16 = n.String()
		}
	}
	return strings.Join(append(parts, b10, hx.B01(hp), b16), " ")
}

// fmtObs: strconv.FormatInt / FormatUint / big.Int.String of n.
func fmtObs(n *big.Int) string {
	fi, fu := "-", "-"
	if n.IsInt64() {
		fi = hexOrDash(strconv.FormatInt(n.Int64(), 10))
	}
	if n.IsUint64() {
		fu = hexOrDash(strconv.FormatUint(n.Uint64(), 10))
	}
	return "f " + fi + " " + fu + " " + hexOrDash(n.String())
}

func runC17(c hx.Config) error {
	o, err := hx.NewOut(c.OutDir)
	if err != nil {
		return err
	}
	r := hx.NewRng(c.Seed)
	thorough := c.Thorough()

	emitH := func(h, t string, v src) {
		var res any
		var herr error
		pm := hx.Safely(func() { res, herr = callHelper(h, t, v.goValue()) })
		ob := "panic " + strings.ReplaceAll(pm, "\n", " ")
		if pm == "" {
			ob = denoteObs(t, v, obs(res, herr))
		}
		o.Emit(fmt.Sprintf("c17 H %s %s %s %s #ptr=%v", h, t, v.tokens(), v.oracle(), v.ptr), ob)
		o.Count("H:" + v.kind + "->" + t)
		o.Count("outcome:" + strings.SplitN(ob, " ", 2)[0])
	}
	emitS := func(t string, variant int, cs []chk, v src) {
		ob, pob := runSchema(t, variant, cs, v.goValue())
		ob, pob = denoteObs(t, v, ob), denoteObs(t, v, pob)
		pt := 0
		if v.ptr {
			pt = 1
		}
		o.Emit(fmt.Sprintf("c17 S %s %d %s %s %s #variant=%d ptr=%v", t, pt, chainTokens(cs), v.tokens(), v.oracle(), variant, v.ptr), ob+" ~ "+pob)
		o.Count("S:" + v.kind + "->" + t)
		o.Count("outcome:" + strings.SplitN(ob, " ", 2)[0])
		o.Count(fmt.Sprintf("chain-length:%d", len(cs)))
		for _, c := range cs {
			o.Count("check:" + c.op + ":" + c.bkind)
		}
		if ob == pob {
			o.Count("consistent:c1")
		} else {
			o.Count("consistent:c0")
		}
	}
	all := func(v src, schemaPct int) {
		for _, t := range targets {
			if (v.kind == "c128" || v.kind == "c64") && t == "str" {
				continue // complex → string renders "(a+bi)"; not a numeric reading, not exercised
			}
			for _, h := range helpersFor(t) {
				emitH(h, t, v)
			}
			if v.kind != "nil" && r.Chance(schemaPct) { // nil input to a schema is C03's business
				vs := coerceSchemas[t]
				emitS(t, r.Intn(len(vs)), chainFor(r, t, v), v)
			}
		}
	}
	withPtr := func(v src) src {
		if r.Chance(15) {
			v.ptr = true
		}
		return v
	}

	// (1) exhaustive 8-bit sources, every target, every helper; a schema for one case in five.
	for x := -128; x <= 127; x++ {
		all(src{kind: "i8", i: int64(x)}, 20)
	}
	for x := 0; x <= 255; x++ {
		all(src{kind: "u8", u: uint64(x)}, 20)
	}
	// (1b) thorough: exhaustive 16-bit sources through To[T] for every target.
	if thorough {
		for x := -32768; x <= 32767; x++ {
			v := src{kind: "i16", i: int64(x)}
			for _, t := range targets {
				emitH("to", t, v)
			}
		}
		for x := 0; x <= 65535; x++ {
			v := src{kind: "u16", u: uint64(x)}
			for _, t := range targets {
				emitH("to", t, v)
			}
		}
	}
	// (2) boundary grids of every source kind.
	nf := 150
	if thorough {
		nf = 20000
	}
	var grid []src
	for _, k := range intKinds {
		grid = append(grid, intGrid(k)...)
	}
	grid = append(grid, floatGrid(64, r, nf)...)
	grid = append(grid, floatGrid(32, r, nf)...)
	grid = append(grid, stringGrid(r)...)
	ns := 400
	if thorough {
		ns = 30000
	}
	grid = append(grid, randomNumerals(r, ns)...)
	grid = append(grid, bigGrid()...)
	grid = append(grid, src{kind: "bool", b: true}, src{kind: "bool", b: false})
	for _, c := range [][2]float64{{0, 0}, {3, 0}, {-3, 0}, {3, 4}, {0, 2}, {1.5, 0}, {-0.5, 0}, {1e308, 1e308}, {math.NaN(), 0}, {1, math.NaN()}, {math.Inf(1), 0}, {1 << 53, 0}, {-(1 << 63), 0}} {
		grid = append(grid, src{kind: "c128", f: c[0], im: c[1]})
		grid = append(grid, src{kind: "c64", f: float64(float32(c[0])), im: float64(float32(c[1]))})
	}
	for i := 0; i < 3; i++ {
		grid = append(grid, src{kind: "nil", sub: i}, src{kind: "other", sub: i})
	}
	grid = append(grid, extGrid()...)
	for _, v := range grid {
		all(withPtr(v), 60)
	}
	// (3) the text primitives themselves: Lean's TrimSpace / ParseInt / ParseUint / SetString /
	// FormatInt (Model/ParseInt.lean) against strings / strconv / math/big.
	nt := 1500
	if thorough {
		nt = 150000
	}
	for _, s := range textCases(r, nt) {
		o.Emit("c17 P "+hexOrDash(s), textObs(s))
		o.Count("P:text")
	}
	var fms []*big.Int
	for _, v := range grid {
		switch {
		case v.kind == "big":
			fms = append(fms, v.big)
		case v.isInt() && kindByName(v.kind).signed:
			fms = append(fms, big.NewInt(v.i))
		case v.isInt():
			fms = append(fms, new(big.Int).SetUint64(v.u))
		}
	}
	for i := 0; i < nt; i++ {
		x := new(big.Int).SetUint64(r.Next() >> uint(r.Intn(64)))
		if r.Chance(50) {
			x.Neg(x)
		}
		fms = append(fms, x)
	}
	for _, n := range fms {
		o.Emit("c17 F "+n.String(), fmtObs(n))
		o.Count("F:format")
	}
	return o.Close(map[string]any{"seed": c.Seed, "tier": c.Tier})
}
