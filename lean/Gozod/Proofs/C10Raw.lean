/-
  C10 — the classification of checks on a raw pointer payload is READ from the current tree (Gen/RawClass.lean,
  behavioural translator), no longer a hand classification: these theorems are stated over the WHOLE regenerated
  table, so an edit of a wrapper that changes what a check does with a pointer changes a proof obligation.
-/
import Gozod.Model.RawClassSpec
import Gozod.Proofs.C10G
namespace Gozod.C10
open Gozod Gozod.RawClassSpec

/-- The regenerated tables are exactly what the transcription of the wrappers expects. -/
theorem c10_rawclass_expected : Gozod.Gen.rawClass = expectedRaw ∧ Gozod.Gen.owClass = expectedOw := by decide

/-- Every cell is readable, and every cell the driver asks for exists — except `builtin` of an object, which has no
    built-in check (never asked for a generated line). -/
theorem c10_rawclass_total :
    (Gozod.Gen.rawClass.all fun e => (parseRaw e.2.2).isSome) = true ∧
    (Gozod.Gen.owClass.all fun e => (parseOw e.2).isSome) = true ∧
    (driverCells.all fun c => c == ("o", "builtin") || (lookupRaw Gozod.Gen.rawClass c.1 c.2).isSome) = true ∧
    (["s", "sp", "i", "ip", "l", "o"].all fun k => (lookupOw Gozod.Gen.owClass k).isSome) = true := by decide

/-- `Refine` and `RefineAny` of the integer types fall in the same class (the op line does not tell them apart). -/
theorem c10_rawclass_refany : rawOf "i" "refany" = rawOf "i" "ref" ∧ rawOf "ip" "refany" = rawOf "ip" "ref" := by decide

/-- Container rows: no check reports an issue on the raw payload and overwrites cook it, so the container pass is
    the instance `runChecksG_container` (the former hand classification `vacU`, now derived: size checks and
    `Check(fn)` are vacuous, `Refine` runs). -/
theorem c10_rawclass_containers :
    (["l", "o"].all fun k => owOf k == .cook && (["builtin", "ref", "chk"].all fun c => rawOf k c != .issue)) = true ∧
    rawOf "l" "builtin" = .vac ∧ rawOf "l" "chk" = .vac ∧ rawOf "o" "chk" = .vac ∧
    rawOf "l" "ref" = .run ∧ rawOf "o" "ref" = .run := by decide

/-- String rows: the instance `runChecksG_string` for the built-ins and refinements. -/
theorem c10_rawclass_strings :
    owOf "s" = .skip ∧ owOf "sp" = .stay ∧
    rawOf "s" "builtin" = .issue ∧ rawOf "s" "ref" = .issue ∧ rawOf "sp" "builtin" = .issue ∧ rawOf "sp" "ref" = .issue := by decide

/-- Whatever the table says, verdict, issues and value are those of the regular loop (`c10_generic_all` instantiated
    with the classification read from the tree). -/
theorem c10_rawclass_irrelevant {P O T V : Type} (env : Env P O T V) (kindOf : P → String) (key : String) (viaPtr : Bool)
    (cs : List (Check P O)) (v : V) :
    (runChecksG env (fun p => rawOf key (kindOf p)) (owOf key) viaPtr cs v).issues = (runChecks env cs v).issues ∧
    (runChecksG env (fun p => rawOf key (kindOf p)) (owOf key) viaPtr cs v).val = (runChecks env cs v).val :=
  c10_generic_all env _ (owOf key) viaPtr cs v

-- the cells read from the current tree, as the driver reads them
example : rawOf "i" "builtin" = .issue ∧ rawOf "i" "chk" = .vac ∧ rawOf "ip" "chk" = .run ∧ owOf "sp" = .stay ∧ owOf "s" = .skip := by decide
-- `c10_rawclass_irrelevant` on a concrete chain: a built-in (issue class) before an overwrite, pointer input of an Int schema
example : (runChecksG (⟨fun p v => v ≥ p, fun o v => v + o, fun t v => v * t⟩ : Env Nat Nat Nat Nat)
    (fun _ => rawOf "i" "builtin") (owOf "i") true [.pred 5 false none, .overwrite 1] 5).val = 6 := by decide

end Gozod.C10
