/-
  C02 — composite schemas decide exactly by composing their members' verdicts.

  Model: `Gozod.Model.Containers` (validators of types/*.go + the engine's nil path), members
  abstract: every law below holds for EVERY environment `env : Mid → V → MRes` (so for members that
  accept nil, members that are themselves composites of any depth, …) and every `Cfg`
  (today's code and the code after the pending patches).

  Where today's code falsifies the full law the full statement is kept as a `def …_full : Prop`,
  the `_partial` theorem states the excluded region, and a witness theorem shows the full statement
  false there.
-/
import Gozod.Model.Containers

namespace Gozod.C02
open Gozod.Cont

/-! ### small facts -/

theorem ofIssues_isOk (is : List Issue) : (ofIssues is).isOk = true ↔ is = [] := by
  cases is <;> simp [ofIssues, Res.isOk]

theorem errs_nil (env : Env) (m : Mid) (x : V) : errs env m x = [] ↔ acc env m x = true := by
  unfold errs acc; cases env m x <;> simp

theorem sizeIssues_nil (cs : List SizeCk) (n : Nat) : sizeIssues cs n = [] ↔ sizeOK cs n = true := by
  induction cs with
  | nil => simp [sizeIssues, sizeOK]
  | cons c cs ih =>
    simp only [sizeIssues, sizeOK, List.all_cons, Bool.and_eq_true, List.append_eq_nil_iff]
    rw [ih]; simp only [sizeOK]
    cases h : c.holds n <;> simp

theorem nilPath_isOk (m : Mods) : (nilPath m).isOk = nilOK m := by
  unfold nilPath nilOK
  cases m.nonOptional <;> cases m.optional <;> cases m.nilable <;> simp [Res.isOk]

/-- the engine wrapper on a nil-like input: only the container's own optional/nilable flags count. -/
theorem engine_nil {α : Type} (m : Mods) (ex : V → Option α) (va : α → Res) (v : V)
    (h : v.isNilLike = true) : (engine m ex va v).isOk = nilOK m := by
  simp [engine, h, nilPath_isOk]

/-- the engine wrapper on any other input: extraction must succeed and the validator accept. -/
theorem engine_nonNil {α : Type} (m : Mods) (ex : V → Option α) (va : α → Res) (v : V)
    (h : v.isNilLike = false) :
    (engine m ex va v).isOk = true ↔ ∃ a, ex v = some a ∧ (va a).isOk = true := by
  simp only [engine, h, Bool.false_eq_true, ↓reduceIte]
  cases ex v <;> simp [Res.isOk]

/-! ### slice -/

theorem sliceElems_nil (cfg : Cfg) (env : Env) (e : Mid) (i : Nat) (xs : List V) :
    sliceElems cfg env e i xs = [] ↔ ∀ x ∈ xs, acc env e x = true := by
  induction xs generalizing i with
  | nil => simp [sliceElems]
  | cons x xs ih =>
    simp only [sliceElems, List.append_eq_nil_iff, List.map_eq_nil_iff, errs_nil, ih, List.mem_cons,
      forall_eq_or_imp]

/-- **slice**: accepted iff the input has the slice's shape, the size checks hold and every
    element is accepted by the element schema. -/
theorem c02_slice (cfg : Cfg) (env : Env) (m : Mods) (t : Ty) (e : Mid) (cs : List SizeCk) (v : V)
    (hv : v.isNilLike = false) :
    (run cfg env (.slice m t e cs) v).isOk = true ↔
      ∃ xs, extractSlice t v = some xs ∧ sizeOK cs xs.length = true ∧ ∀ x ∈ xs, acc env e x = true := by
  simp only [run, engine_nonNil _ _ _ _ hv, validateSlice, ofIssues_isOk, List.append_eq_nil_iff,
    sizeIssues_nil, sliceElems_nil]

example : (run {} (fun _ _ => .ok .nil) (.slice {} .any 0 [.min 1]) (.slice .any (some [.nil]))).isOk = true := by
  decide

/-! ### array and tuple: positional items, then the rest schema -/

/-- every positional element is accepted by its item schema, every further one by the rest schema. -/
def posOK (env : Env) : List Mid → Option Mid → List V → Bool
  | _, _, [] => true
  | m :: ms, r, x :: xs => acc env m x && posOK env ms r xs
  | [], some r, x :: xs => acc env r x && posOK env [] (some r) xs
  | [], none, _ :: _ => true

theorem arrayElems_nil (env : Env) (i : Nat) (ms : List Mid) (r : Option Mid) (xs : List V) :
    arrayElems env i ms r xs = [] ↔ posOK env ms r xs = true := by
  induction xs generalizing i ms with
  | nil => cases ms <;> simp [arrayElems, posOK]
  | cons x xs ih =>
    cases ms with
    | cons m ms =>
      simp only [arrayElems, posOK, List.append_eq_nil_iff, ih, Bool.and_eq_true]
      cases acc env m x <;> simp
    | nil =>
      cases r with
      | none => simp [arrayElems, posOK]
      | some r =>
        simp only [arrayElems, posOK, List.append_eq_nil_iff, ih, Bool.and_eq_true]
        cases acc env r x <;> simp

theorem tupleElems_nil (env : Env) (i : Nat) (ms : List Mid) (r : Option Mid) (xs : List V) :
    tupleElems env i ms r xs = [] ↔ posOK env ms r xs = true := by
  induction xs generalizing i ms with
  | nil => cases ms <;> simp [tupleElems, posOK]
  | cons x xs ih =>
    cases ms with
    | cons m ms =>
      simp only [tupleElems, posOK, List.append_eq_nil_iff, List.map_eq_nil_iff, errs_nil, ih,
        Bool.and_eq_true]
    | nil =>
      cases r with
      | none => simp [tupleElems, posOK]
      | some r =>
        simp only [tupleElems, posOK, List.append_eq_nil_iff, List.map_eq_nil_iff, errs_nil, ih,
          Bool.and_eq_true]

/-- `posOK` says what it should: item `i` accepts element `i`, the rest schema every later element. -/
theorem posOK_iff (env : Env) (ms : List Mid) (r : Option Mid) (xs : List V) :
    posOK env ms r xs = true ↔
      (∀ p ∈ ms.zip xs, acc env p.1 p.2 = true) ∧
      (∀ rm, r = some rm → ∀ x ∈ xs.drop ms.length, acc env rm x = true) := by
  induction xs generalizing ms with
  | nil => cases ms <;> simp [posOK]
  | cons x xs ih =>
    cases ms with
    | cons m ms =>
      simp only [posOK, Bool.and_eq_true, ih, List.zip_cons_cons, List.mem_cons, forall_eq_or_imp,
        List.length_cons, List.drop_succ_cons, and_assoc]
    | nil =>
      cases r with
      | none => simp [posOK]
      | some r =>
        have := ih []
        simp only [List.zip_nil_left, List.not_mem_nil, false_implies, implies_true, true_and,
          List.length_nil, List.drop_zero] at this
        simp only [posOK, Bool.and_eq_true, this, List.zip_nil_left, List.not_mem_nil, false_implies,
          implies_true, true_and, List.length_nil, List.drop_zero, List.mem_cons, forall_eq_or_imp,
          Option.some.injEq, forall_eq']

def arrayLenOK (items : List Mid) (rest : Option Mid) (n : Nat) : Bool :=
  if rest.isSome then items.length ≤ n else n == items.length

/-- **array**: shape, size checks, length (exactly the items, or at least the items when a rest
    schema exists), prefix items, rest. -/
theorem c02_array (cfg : Cfg) (env : Env) (m : Mods) (items : List Mid) (rest : Option Mid)
    (cs : List SizeCk) (v : V) (hv : v.isNilLike = false) :
    (run cfg env (.array m items rest cs) v).isOk = true ↔
      ∃ xs, extractArray v = some xs ∧ sizeOK cs xs.length = true ∧
        arrayLenOK items rest xs.length = true ∧ posOK env items rest xs = true := by
  simp only [run, engine_nonNil _ _ _ _ hv]
  constructor
  · rintro ⟨xs, hx, h⟩
    refine ⟨xs, hx, ?_⟩
    unfold validateArray at h
    cases hs : sizeIssues cs xs.length with
    | cons i is => simp [hs, Res.isOk] at h
    | nil =>
      have hsz := (sizeIssues_nil cs xs.length).1 hs
      simp only [hs] at h
      refine ⟨hsz, ?_⟩
      unfold arrayLenOK
      cases hr : rest.isSome
      · simp only [hr, Bool.false_eq_true, ↓reduceIte] at h ⊢
        by_cases h1 : xs.length < items.length
        · simp [h1, Res.isOk] at h
        · by_cases h2 : xs.length > items.length
          · simp [h1, h2, Res.isOk] at h
          · simp only [h1, h2, ↓reduceIte, ofIssues_isOk, arrayElems_nil] at h
            exact ⟨by simp; omega, h⟩
      · simp only [hr, ↓reduceIte] at h ⊢
        by_cases h1 : xs.length < items.length
        · simp [h1, Res.isOk] at h
        · simp only [h1, ↓reduceIte, ofIssues_isOk, arrayElems_nil] at h
          exact ⟨by simp; omega, h⟩
  · rintro ⟨xs, hx, hsz, hlen, hpos⟩
    refine ⟨xs, hx, ?_⟩
    unfold validateArray
    rw [(sizeIssues_nil cs xs.length).2 hsz]
    unfold arrayLenOK at hlen
    cases hr : rest.isSome
    · simp only [hr, Bool.false_eq_true, ↓reduceIte, beq_iff_eq] at hlen ⊢
      have h1 : ¬ xs.length < items.length := by omega
      have h2 : ¬ xs.length > items.length := by omega
      simp only [h1, h2, ↓reduceIte, ofIssues_isOk, arrayElems_nil]; exact hpos
    · simp only [hr, ↓reduceIte, decide_eq_true_eq] at hlen ⊢
      have h1 : ¬ xs.length < items.length := by omega
      simp only [h1, ↓reduceIte, ofIssues_isOk, arrayElems_nil]; exact hpos

def tupleLenOK (items : List Mid) (req : Nat) (rest : Option Mid) (n : Nat) : Bool :=
  req ≤ n && (rest.isSome || n ≤ items.length)

/-- **tuple**: at least the required items (the optional tail may be absent), no more than the
    items unless a rest schema exists, prefix items, rest, size checks. -/
theorem c02_tuple (cfg : Cfg) (env : Env) (m : Mods) (items : List Mid) (req : Nat)
    (rest : Option Mid) (cs : List SizeCk) (v : V) (hv : v.isNilLike = false) :
    (run cfg env (.tuple m items req rest cs) v).isOk = true ↔
      ∃ xs, extractTuple v = some xs ∧ tupleLenOK items req rest xs.length = true ∧
        posOK env items rest xs = true ∧ sizeOK cs xs.length = true := by
  simp only [run, engine_nonNil _ _ _ _ hv]
  constructor
  · rintro ⟨xs, hx, h⟩
    refine ⟨xs, hx, ?_⟩
    unfold validateTuple at h
    by_cases h1 : xs.length < req
    · simp [h1, Res.isOk] at h
    · simp only [h1, ↓reduceIte] at h
      by_cases h2 : (rest.isNone && decide (xs.length > items.length)) = true
      · simp [h2, Res.isOk] at h
      · simp only [h2, Bool.false_eq_true, ↓reduceIte] at h
        cases ht : tupleElems env 0 items rest xs with
        | cons i is => simp [ht, Res.isOk] at h
        | nil =>
          simp only [ht, ofIssues_isOk, sizeIssues_nil] at h
          refine ⟨?_, (tupleElems_nil env 0 items rest xs).1 ht, h⟩
          unfold tupleLenOK
          cases hr : rest <;> simp [hr] at h2 ⊢ <;> omega
  · rintro ⟨xs, hx, hlen, hpos, hsz⟩
    refine ⟨xs, hx, ?_⟩
    unfold validateTuple
    unfold tupleLenOK at hlen
    simp only [Bool.and_eq_true, decide_eq_true_eq, Bool.or_eq_true] at hlen
    have h1 : ¬ xs.length < req := by omega
    have h2 : ¬ ((rest.isNone && decide (xs.length > items.length)) = true) := by
      cases hr : rest <;> simp [hr] at hlen ⊢; omega
    simp only [h1, h2, ↓reduceIte, (tupleElems_nil env 0 items rest xs).2 hpos, ofIssues_isOk,
      sizeIssues_nil, Bool.false_eq_true]
    exact hsz

/-! ### map -/

def optAcc (env : Env) (m : Option Mid) (x : V) : Bool :=
  match m with
  | none => true
  | some m => acc env m x

theorem optErrs_nil (env : Env) (m : Option Mid) (x : V) : optErrs env m x = [] ↔ optAcc env m x = true := by
  cases m <;> simp [optErrs, optAcc, errs_nil]

theorem mapEntries_nil (env : Env) (km vm : Option Mid) (es : List (V × V)) :
    mapEntries env km vm es = [] ↔ ∀ e ∈ es, optAcc env km e.1 = true ∧ optAcc env vm e.2 = true := by
  induction es with
  | nil => simp [mapEntries]
  | cons e es ih =>
    obtain ⟨k, x⟩ := e
    simp only [mapEntries, List.append_eq_nil_iff, List.map_eq_nil_iff, optErrs_nil, ih, List.mem_cons,
      forall_eq_or_imp, and_assoc]

/-- **map**: shape, size checks, every key accepted by the key schema and every value by the value schema. -/
theorem c02_map (cfg : Cfg) (env : Env) (m : Mods) (km vm : Option Mid) (cs : List SizeCk) (v : V)
    (hv : v.isNilLike = false) :
    (run cfg env (.map m km vm cs) v).isOk = true ↔
      ∃ es, extractMap v = some es ∧ sizeOK cs es.length = true ∧
        ∀ e ∈ es, optAcc env km e.1 = true ∧ optAcc env vm e.2 = true := by
  simp only [run, engine_nonNil _ _ _ _ hv]
  constructor
  · rintro ⟨es, hx, h⟩
    refine ⟨es, hx, ?_⟩
    unfold validateMap at h
    cases hs : sizeIssues cs es.length with
    | cons i is => simp [hs, Res.isOk] at h
    | nil =>
      simp only [hs, ofIssues_isOk, mapEntries_nil] at h
      exact ⟨(sizeIssues_nil _ _).1 hs, h⟩
  · rintro ⟨es, hx, hsz, h⟩
    refine ⟨es, hx, ?_⟩
    unfold validateMap
    simp only [(sizeIssues_nil _ _).2 hsz, ofIssues_isOk, mapEntries_nil]; exact h

/-! ### set -/

theorem setElems_nil (env : Env) (m : Mid) (xs : List V) :
    setElems env m xs = [] ↔ ∀ x ∈ xs, acc env m x = true := by
  induction xs with
  | nil => simp [setElems]
  | cons x xs ih =>
    simp only [setElems, List.append_eq_nil_iff, List.map_eq_nil_iff, errs_nil, ih, List.mem_cons,
      forall_eq_or_imp]

/-- **set**: shape, size checks, every element accepted. -/
theorem c02_set (cfg : Cfg) (env : Env) (m : Mods) (t : Ty) (e : Mid) (cs : List SizeCk) (v : V)
    (hv : v.isNilLike = false) :
    (run cfg env (.set m t e cs) v).isOk = true ↔
      ∃ xs, extractSet t v = some xs ∧ sizeOK cs xs.length = true ∧ ∀ x ∈ xs, acc env e x = true := by
  simp only [run, engine_nonNil _ _ _ _ hv]
  constructor
  · rintro ⟨xs, hx, h⟩
    refine ⟨xs, hx, ?_⟩
    unfold validateSet at h
    cases hs : sizeIssues cs xs.length with
    | cons i is => simp [hs, Res.isOk] at h
    | nil =>
      simp only [hs, ofIssues_isOk, setElems_nil] at h
      exact ⟨(sizeIssues_nil _ _).1 hs, h⟩
  · rintro ⟨xs, hx, hsz, h⟩
    refine ⟨xs, hx, ?_⟩
    unfold validateSet
    simp only [(sizeIssues_nil _ _).2 hsz, ofIssues_isOk, setElems_nil]; exact h

/-! ### union, xor -/

/-- **union**: accepted iff at least one member accepts (on inputs that reach the validator). -/
theorem c02_union (cfg : Cfg) (env : Env) (m : Mods) (opts : List Mid) (v : V)
    (hv : v.isNilLike = false) :
    (run cfg env (.union m opts) v).isOk = true ↔ ∃ o ∈ opts, acc env o v = true := by
  simp only [run, engine_nonNil _ _ _ _ hv, Option.some.injEq, exists_eq_left']
  unfold validateUnion
  by_cases h : opts.any (fun o => acc env o v) = true
  · simp only [h, ↓reduceIte, Res.isOk, true_iff]
    simpa [List.any_eq_true] using h
  · simp only [h, Bool.false_eq_true, ↓reduceIte]
    have : ¬ ∃ o ∈ opts, acc env o v = true := by simpa [List.any_eq_true] using h
    cases opts <;> simp [Res.isOk] at this ⊢ <;> exact this

/-- The full law — a union accepts iff some member accepts, for EVERY input — … -/
def c02_union_full : Prop :=
  ∀ (cfg : Cfg) (env : Env) (m : Mods) (opts : List Mid) (v : V),
    (run cfg env (.union m opts) v).isOk = true ↔ (v.isNilLike = true ∧ nilOK m = true) ∨ ∃ o ∈ opts, acc env o v = true

/-- … is false today: `Union([Nil(), String()]).Parse(nil)` is rejected although `Nil()` accepts,
    because the engine's nil path answers before the members are asked. -/
theorem c02_union_full_false : ¬ c02_union_full := by
  intro h
  have := h {} (fun _ _ => .ok .nil) {} [0] .nil
  revert this; decide

/-- On nil-like inputs (nil, nil pointer, nil slice, nil map) every engine-driven composite
    answers from its own optional/nilable flags alone. -/
theorem c02_nil_path (cfg : Cfg) (env : Env) (n : Node) (v : V) (hv : v.isNilLike = true)
    (hn : match n with | .du .. => False | .lazy .. => False | _ => True) :
    (run cfg env n v).isOk = true ↔
      nilOK (match n with
             | .slice m .. | .array m .. | .tuple m .. | .map m .. | .record m .. | .set m ..
             | .object m .. | .union m .. | .xor m .. | .inter m .. | .du m .. | .lazy m .. => m
             | .struct m p .. => structMods m p) = true := by
  cases n <;> simp only [run, engine_nil _ _ _ _ hv] at hn ⊢ <;> first | trivial | exact hn.elim

theorem countAcc_eq (env : Env) (opts : List Mid) (v : V) :
    countAcc env opts v = (opts.filter (fun o => acc env o v)).length := rfl

/-- **xor**: accepted iff exactly one member accepts. -/
theorem c02_xor (cfg : Cfg) (env : Env) (m : Mods) (opts : List Mid) (v : V)
    (hv : v.isNilLike = false) :
    (run cfg env (.xor m opts) v).isOk = true ↔ countAcc env opts v = 1 := by
  simp only [run, engine_nonNil _ _ _ _ hv, Option.some.injEq, exists_eq_left']
  unfold validateXor
  generalize countAcc env opts v = c
  match c with
  | 0 => cases opts <;> simp [Res.isOk]
  | 1 => simp [Res.isOk]
  | n + 2 => simp [Res.isOk]

example : (run {} (fun m _ => if m = 0 then .ok .nil else .err (mk .invalidType []) [])
    (.xor {} [0, 1]) (.atom .str 1)).isOk = true := by decide

/-! ### intersection -/

/-- without unrecognized_keys issues the merge keeps every issue of both sides. -/
theorem mergeUnrec_nil_of_noUnrec (cfg : Cfg) (l r : List Issue)
    (hl : ∀ i ∈ l, isUnrec i = false) (hr : ∀ i ∈ r, isUnrec i = false) :
    mergeUnrec cfg l r = [] ↔ l = [] ∧ r = [] := by
  have fl : l.filter isUnrec = [] := by
    rw [List.filter_eq_nil_iff]; intro a ha; simp [hl a ha]
  have fr : r.filter isUnrec = [] := by
    rw [List.filter_eq_nil_iff]; intro a ha; simp [hr a ha]
  have gl : l.filter (fun i => !isUnrec i) = l := by
    rw [List.filter_eq_self]; intro a ha; simp [hl a ha]
  have gr : r.filter (fun i => !isUnrec i) = r := by
    rw [List.filter_eq_self]; intro a ha; simp [hr a ha]
  simp [mergeUnrec, fl, fr, gl, gr]

theorem mresIssues_eq (env : Env) (m : Mid) (v : V) : mresIssues (env m v) = errs env m v := by
  unfold mresIssues errs; cases env m v <;> rfl

/-- **intersection** (partial): when neither side reports unrecognized keys, accepted iff both
    sides accept and their results merge. -/
theorem c02_inter_partial (cfg : Cfg) (env : Env) (m : Mods) (l r : Mid) (v : V)
    (hv : v.isNilLike = false)
    (hl : ∀ i ∈ errs env l v, isUnrec i = false) (hr : ∀ i ∈ errs env r v, isUnrec i = false) :
    (run cfg env (.inter m l r) v).isOk = true ↔
      acc env l v = true ∧ acc env r v = true ∧ mergeable (mresVal (env l v)) (mresVal (env r v)) = true := by
  simp only [run, engine_nonNil _ _ _ _ hv, Option.some.injEq, exists_eq_left']
  unfold validateInter
  rw [mresIssues_eq, mresIssues_eq]
  have hm := mergeUnrec_nil_of_noUnrec cfg _ _ hl hr
  cases hmu : mergeUnrec cfg (errs env l v) (errs env r v) with
  | nil =>
    have := hm.1 hmu
    rw [errs_nil, errs_nil] at this
    simp only [this.1, this.2, true_and]
    cases mergeable (mresVal (env l v)) (mresVal (env r v)) <;> simp [Res.isOk]
  | cons i is =>
    have : ¬ (errs env l v = [] ∧ errs env r v = []) := by
      intro h; rw [hm.2 h] at hmu; cases hmu
    rw [errs_nil, errs_nil] at this
    simp only [Res.isOk, Bool.false_eq_true, false_iff]
    intro h; exact this ⟨h.1, h.2.1⟩

def c02_inter_full : Prop :=
  ∀ (cfg : Cfg) (env : Env) (m : Mods) (l r : Mid) (v : V), v.isNilLike = false →
    ((run cfg env (.inter m l r) v).isOk = true ↔
      acc env l v = true ∧ acc env r v = true ∧ mergeable (mresVal (env l v)) (mresVal (env r v)) = true)

/-- Two strict objects that each reject the other's key: both sides REJECT, the intersection
    ACCEPTS (`mergeUnrecognizedKeysIssues` keeps only keys both sides reported). -/
theorem c02_inter_full_false : ¬ c02_inter_full := by
  intro h
  have := h {} (fun m _ => if m = 0 then .err { code := .unrecognizedKeys, path := [], keys := [2] } []
                           else .err { code := .unrecognizedKeys, path := [], keys := [1] } [])
    {} 0 1 (.map .str .any (some [])) rfl
  revert this; decide

/-! ### discriminated union -/

/-- **discriminated union**: a `map[string]any` with the discriminator present is accepted iff the
    member selected by the discriminator accepts; a value no member is registered for falls back to
    "some member accepts". -/
theorem c02_du (cfg : Cfg) (env : Env) (m : Mods) (disc : Nat) (dmap : List (Nat × Mid))
    (opts : List Mid) (es : Option (List (V × V))) (dv : V)
    (hd : lookupKey disc (es.getD []) = some dv) :
    (run cfg env (.du m disc dmap opts) (.map .str .any es)).isOk = true ↔
      match lookupDisc dv dmap with
      | some t => acc env t (.map .str .any es) = true
      | none => ∃ o ∈ opts, acc env o (.map .str .any es) = true := by
  simp only [run, parseDU, duNil, Bool.false_and, Bool.false_eq_true, ↓reduceIte, hd]
  cases lookupDisc dv dmap with
  | some t =>
    simp only [acc]
    cases env t (.map .str .any es) <;> simp [Res.isOk]
  | none =>
    simp only [firstAcc]
    by_cases h : opts.any (fun o => acc env o (.map .str .any es)) = true
    · simp only [h, ↓reduceIte, Res.isOk, true_iff]; simpa [List.any_eq_true] using h
    · simp only [h, Bool.false_eq_true, ↓reduceIte, Res.isOk, false_iff]
      simpa [List.any_eq_true] using h

/-- anything that is not a `map[string]any` (and not an accepted nil), or lacks the discriminator, is rejected. -/
theorem c02_du_missing (cfg : Cfg) (env : Env) (m : Mods) (disc : Nat) (dmap : List (Nat × Mid))
    (opts : List Mid) (es : Option (List (V × V))) (hd : lookupKey disc (es.getD []) = none) :
    (run cfg env (.du m disc dmap opts) (.map .str .any es)).isOk = false := by
  simp [run, parseDU, duNil, hd, Res.isOk]

/-! ### lazy -/

/-- **lazy** (partial): on an input that is neither nil nor a nil pointer (/repo bc2d4fc: a nil pointer is a nil input),
    when the target is asked at all and does not answer with the placeholder error, lazy accepts iff its target does. -/
theorem c02_lazy_partial (cfg : Cfg) (env : Env) (m : Mods) (direct : Bool) (t : Mid) (v : V)
    (hv : lazyNil v = false) (hask : (cfg.lazyWrap || direct) = true)
    (hph : ∀ i ∈ errs env t v, (i.code == .invalidType && i.expLazy) = false) :
    (run cfg env (.lazy m direct t) v).isOk = true ↔ acc env t v = true := by
  simp only [run, parseLazy, hv, Bool.false_eq_true, ↓reduceIte, lazyAsk, hask]
  unfold acc errs at *
  cases h : env t v with
  | ok r => simp [Res.isOk]
  | err i is =>
    simp only [h] at hph
    have : (i :: is).any (fun x => x.code == .invalidType && x.expLazy) = false := by
      rw [List.any_eq_false]; intro x hx; simpa using hph x hx
    simp [this, Res.isOk]

def c02_lazy_full : Prop :=
  ∀ (cfg : Cfg) (env : Env) (m : Mods) (direct : Bool) (t : Mid) (v : V),
    (run cfg env (.lazy m direct t) v).isOk = true ↔ (lazyNil v = true ∧ nilOK m = true) ∨ acc env t v = true

/-- Today `Lazy(func() … { return Object{…} }).Parse(true)` is ACCEPTED: a target whose `Parse`
    result type is not one of eight listed types is never asked (`schemaWrapper.Parse`), and the
    placeholder error that stands in for its answer is swallowed. -/
theorem c02_lazy_full_false : ¬ c02_lazy_full := by
  intro h
  have := h { lazyWrap := false } (fun _ _ => .err (mk .invalidType []) []) {} false 0 (.atom .bool 1)
  revert this; decide

/-- and `Lazy(Nil()).Parse(nil)` is rejected although the target accepts nil. -/
theorem c02_lazy_nil_false : ¬ c02_lazy_full := by
  intro h
  have := h {} (fun _ _ => .ok .nil) {} true 0 .nil
  revert this; decide

/-! ### struct -/

def structFieldOK (env : Env) (fs : List (Nat × V)) (f : Field) : Bool :=
  match lookupField f.name fs with
  | none => f.optional
  | some x => acc env f.m x

theorem structFields_nil (env : Env) (fs : List (Nat × V)) (shape : List Field) :
    structFields env fs shape = [] ↔ ∀ f ∈ shape, structFieldOK env fs f = true := by
  induction shape with
  | nil => simp [structFields]
  | cons f rest ih =>
    simp only [structFields, List.append_eq_nil_iff, ih, List.mem_cons, forall_eq_or_imp, structFieldOK]
    cases lookupField f.name fs with
    | none => cases f.optional <;> simp
    | some x => simp [errs_nil]

/-- **struct**: the input is the struct (or a pointer to it); a field the struct has must be accepted
    by its schema, a schema field the struct lacks must be optional. -/
theorem c02_struct (cfg : Cfg) (env : Env) (m : Mods) (ptrC : Bool) (sid : Nat) (shape : List Field)
    (v : V) (hv : v.isNilLike = false) :
    (run cfg env (.struct m ptrC sid shape) v).isOk = true ↔
      ∃ fs, extractStruct sid v = some fs ∧ ∀ f ∈ shape, structFieldOK env fs f = true := by
  simp only [run, engine_nonNil _ _ _ _ hv, validateStruct, ofIssues_isOk, structFields_nil]

/-! ### object -/

def objFieldOK (env : Env) (p : Partial) (es : List (V × V)) (f : Field) : Bool :=
  match lookupKey f.name es with
  | none => fieldOptional p f
  | some x => !(x.isNil && f.exactOptional) && acc env f.m x

theorem objectFields_nil (env : Env) (p : Partial) (es : List (V × V)) (shape : List Field) :
    (objectFields env p es shape).1 = [] ↔ ∀ f ∈ shape, objFieldOK env p es f = true := by
  induction shape with
  | nil => simp [objectFields]
  | cons f rest ih =>
    simp only [objectFields, List.mem_cons, forall_eq_or_imp]
    rw [← ih]
    generalize objectFields env p es rest = rec
    obtain ⟨is, n⟩ := rec
    unfold objFieldOK
    cases lookupKey f.name es with
    | none => cases fieldOptional p f <;> simp
    | some x =>
      by_cases hx : (x.isNil && f.exactOptional) = true
      · simp [hx]
      · simp only [hx, Bool.false_eq_true, ↓reduceIte, Bool.not_false, Bool.true_and]
        unfold acc
        cases env f.m x <;> simp

/-- when every field is fine, `result` holds exactly the shape's fields present in the input. -/
theorem objectFields_count (env : Env) (p : Partial) (es : List (V × V)) (shape : List Field)
    (h : ∀ f ∈ shape, objFieldOK env p es f = true) :
    (objectFields env p es shape).2 = (shape.filter (fun f => (lookupKey f.name es).isSome)).length := by
  induction shape with
  | nil => simp [objectFields]
  | cons f rest ih =>
    have hf := h f (List.mem_cons_self ..)
    have hr := ih (fun g hg => h g (List.mem_cons_of_mem _ hg))
    simp only [objectFields, List.filter_cons]
    revert hr
    generalize objectFields env p es rest = rec
    obtain ⟨is, n⟩ := rec
    intro hr; simp only at hr
    unfold objFieldOK at hf
    cases hk : lookupKey f.name es with
    | none => simp [hr]
    | some x =>
      simp only [hk, Bool.and_eq_true, Bool.not_eq_eq_eq_not, Bool.not_true] at hf
      simp only [hf.1, Bool.false_eq_true, ↓reduceIte, Option.isSome_some, List.length_cons]
      unfold acc at hf
      cases he : env f.m x with
      | ok r => simp [he, hr]
      | err i t => simp [he] at hf

def unkOK (env : Env) (mode : Mode) (catchall : Option Mid) (x : V) : Bool :=
  match mode with
  | .strict => false
  | .strip => optAcc env catchall x      -- /repo 507cd5d: the catch-all validates unknown keys in strip mode too
  | .passthrough => optAcc env catchall x

theorem objectUnknown_nil (env : Env) (shape : List Field) (mode : Mode) (c : Option Mid)
    (es : List (V × V)) :
    ((objectUnknown env shape mode c es).1 = [] ∧ (objectUnknown env shape mode c es).2.1 = []) ↔
      ∀ e ∈ es, isKnown shape e.1 = false → unkOK env mode c e.2 = true := by
  induction es with
  | nil => simp [objectUnknown]
  | cons e es ih =>
    obtain ⟨k, x⟩ := e
    simp only [objectUnknown, List.mem_cons, forall_eq_or_imp]
    rw [← ih]
    generalize objectUnknown env shape mode c es = rec
    obtain ⟨is, un, n⟩ := rec
    by_cases hk : isKnown shape k = true
    · simp [hk]
    · simp only [hk, Bool.false_eq_true, ↓reduceIte, Bool.not_eq_true, forall_const, unkOK]
      cases mode with
      | strict => simp
      | strip =>
        cases c with
        | none => simp [optAcc]
        | some cm =>
          simp only [optAcc, acc]
          cases env cm x <;> simp
      | passthrough =>
        cases c with
        | none => simp [optAcc]
        | some cm =>
          simp only [optAcc, acc]
          cases env cm x <;> simp

/-- when every unknown key is fine, `result` gains the unknown keys only in passthrough mode. -/
theorem objectUnknown_count (env : Env) (shape : List Field) (mode : Mode) (c : Option Mid)
    (es : List (V × V)) (h : ∀ e ∈ es, isKnown shape e.1 = false → unkOK env mode c e.2 = true) :
    (objectUnknown env shape mode c es).2.2 =
      if mode = .passthrough then (es.filter (fun e => !isKnown shape e.1)).length else 0 := by
  induction es with
  | nil => simp [objectUnknown]
  | cons e es ih =>
    obtain ⟨k, x⟩ := e
    have he := h (k, x) (List.mem_cons_self ..)
    have hr := ih (fun g hg => h g (List.mem_cons_of_mem _ hg))
    simp only [objectUnknown, List.filter_cons]
    revert hr
    generalize objectUnknown env shape mode c es = rec
    obtain ⟨is, un, n⟩ := rec
    intro hr; simp only at hr
    by_cases hk : isKnown shape k = true
    · simp [hk, hr]
    · simp only [hk, Bool.false_eq_true, ↓reduceIte, Bool.not_false]
      simp only [Bool.not_eq_true] at hk
      have he' := he hk
      cases mode with
      | strict => simp [unkOK] at he'
      | strip =>
        cases c with
        | none => simp [hr]
        | some cm =>
          simp only [unkOK, optAcc, acc] at he'
          cases hx : env cm x with
          | ok r => simp [hx, hr]
          | err i t => simp [hx] at he'
      | passthrough =>
        cases c with
        | none => simp [hr]
        | some cm =>
          simp only [unkOK, optAcc, acc] at he'
          cases hx : env cm x with
          | ok r => simp [hx, hr]
          | err i t => simp [hx] at he'

/-- the number of keys the object keeps: its own fields present in the input, plus (passthrough) the unknown ones. -/
def keptCount (shape : List Field) (mode : Mode) (es : List (V × V)) : Nat :=
  (shape.filter (fun f => (lookupKey f.name es).isSome)).length
    + (if mode = .passthrough then (es.filter (fun e => !isKnown shape e.1)).length else 0)

/-- **object**: shape; every present field accepted by its schema (an exact-optional field not
    explicitly nil), every absent field optional (by its schema or by Partial); unknown keys: none in
    strict mode, ignored in strip mode, accepted by the catchall in passthrough mode; size checks on
    the keys kept. -/
theorem c02_object (cfg : Cfg) (env : Env) (m : Mods) (shape : List Field) (mode : Mode)
    (c : Option Mid) (p : Partial) (cs : List SizeCk) (v : V) (hv : v.isNilLike = false) :
    (run cfg env (.object m shape mode c p cs) v).isOk = true ↔
      ∃ es, extractObject v = some es ∧
        (∀ f ∈ shape, objFieldOK env p es f = true) ∧
        (∀ e ∈ es, isKnown shape e.1 = false → unkOK env mode c e.2 = true) ∧
        sizeOK cs (keptCount shape mode es) = true := by
  simp only [run, engine_nonNil _ _ _ _ hv]
  constructor
  · rintro ⟨es, hx, h⟩
    refine ⟨es, hx, ?_⟩
    unfold validateObject at h
    have hF := objectFields_nil env p es shape
    have hFc := objectFields_count env p es shape
    have hU := objectUnknown_nil env shape mode c es
    have hUc := objectUnknown_count env shape mode c es
    revert h hF hFc hU hUc
    generalize objectFields env p es shape = rf
    generalize objectUnknown env shape mode c es = ru
    obtain ⟨fi, fn⟩ := rf
    obtain ⟨ui, un, unN⟩ := ru
    intro h hF hFc hU hUc
    simp only [ofIssues_isOk, List.append_eq_nil_iff, sizeIssues_nil] at h
    obtain ⟨⟨⟨h1, h2⟩, h3⟩, h4⟩ := h
    have hun : un = [] := by
      cases un with
      | nil => rfl
      | cons a b => simp at h3
    have hf := hF.1 h1
    have hu := hU.1 ⟨h2, hun⟩
    refine ⟨hf, hu, ?_⟩
    have e1 : fn = _ := hFc hf
    have e2 : unN = _ := hUc hu
    unfold keptCount
    rw [← e1, ← e2]
    exact h4
  · rintro ⟨es, hx, hf, hu, hsz⟩
    refine ⟨es, hx, ?_⟩
    unfold validateObject
    have hF := objectFields_nil env p es shape
    have hFc := objectFields_count env p es shape hf
    have hU := objectUnknown_nil env shape mode c es
    have hUc := objectUnknown_count env shape mode c es hu
    revert hF hFc hU hUc
    generalize objectFields env p es shape = rf
    generalize objectUnknown env shape mode c es = ru
    obtain ⟨fi, fn⟩ := rf
    obtain ⟨ui, un, unN⟩ := ru
    intro hF hFc hU hUc
    simp only at hFc hUc
    have h1 := hF.2 hf
    have h2 := hU.2 hu
    simp only at h1 h2
    simp only [ofIssues_isOk, List.append_eq_nil_iff, sizeIssues_nil, h1, h2.1, h2.2, List.isEmpty_nil,
      ↓reduceIte, true_and, hFc, hUc]
    exact hsz

def c02_object_catchall_full : Prop :=
  ∀ (cfg : Cfg) (env : Env) (m : Mods) (shape : List Field) (c : Mid) (p : Partial) (es : List (V × V)),
    (run cfg env (.object m shape .strip (some c) p []) (.map .str .any (some es))).isOk = true →
      ∀ e ∈ es, isKnown shape e.1 = false → acc env c e.2 = true

/-- Since /repo 507cd5d `Object{…}.WithCatchall(S)` in the default strip mode validates every unknown key against the
    catch-all (before: only passthrough mode consulted it; witness `Object{}.WithCatchall(Int()).Parse({b:'x'})` accepted). -/
theorem c02_object_catchall : c02_object_catchall_full := by
  intro cfg env m shape c p es h e he hk
  have hv : (V.map .str .any (some es)).isNilLike = false := rfl
  obtain ⟨es', hx, _, hu, _⟩ := (c02_object cfg env m shape .strip (some c) p [] _ hv).mp h
  have hes : es' = es := by
    simp only [extractObject] at hx
    first
      | exact (Option.some.inj hx).symm
      | (injection hx with hx; exact hx.symm)
  subst hes
  have := hu e he hk
  simpa [unkOK, optAcc] using this

/-! ### record -/

def recKeysOK (env : Env) (ks : KeySpec) (loose isPartial : Bool) (es : List (V × V)) : Prop :=
  match ks with
  | .none => True
  | .enum allowed _ =>
    (∀ e ∈ es, allowed.contains (keyId e.1) = true) ∧
      (isPartial = true ∨ ∀ k ∈ allowed, (es.map (fun e => keyId e.1)).contains k = true)
  | .schema m => loose = true ∨ ∀ e ∈ es, acc env m e.1 = true

theorem recordValues_none (cfg : Cfg) (env : Env) (ks : KeySpec) (vm : Mid) (loose : Bool)
    (es : List (V × V)) :
    recordValues cfg env ks vm loose es = none ↔
      ∀ e ∈ es, recSkip env ks loose e.1 = true ∨ acc env vm e.2 = true := by
  induction es with
  | nil => simp [recordValues]
  | cons e es ih =>
    obtain ⟨k, x⟩ := e
    simp only [recordValues, List.mem_cons, forall_eq_or_imp]
    rw [← ih]
    by_cases hs : recSkip env ks loose k = true
    · simp [hs]
    · simp only [hs, Bool.false_eq_true, ↓reduceIte, false_or]
      unfold acc
      cases env vm x <;> simp

theorem recordSchemaKeys_nil (cfg : Cfg) (env : Env) (m : Mid) (loose : Bool) (es : List (V × V)) :
    recordSchemaKeys cfg env m loose es = [] ↔ loose = true ∨ ∀ e ∈ es, acc env m e.1 = true := by
  induction es with
  | nil => simp [recordSchemaKeys]
  | cons e es ih =>
    obtain ⟨k, x⟩ := e
    simp only [recordSchemaKeys, List.append_eq_nil_iff, ih, List.mem_cons, forall_eq_or_imp]
    cases loose
    · simp [errs_nil]
    · simp

theorem not_bnot_true {b : Bool} : ¬ ((!b) = true) ↔ b = true := by cases b <;> simp

theorem recordEnumKeys_nil (allowed : List Nat) (isPartial : Bool) (es : List (V × V)) :
    recordEnumKeys allowed isPartial es = [] ↔
      (∀ e ∈ es, allowed.contains (keyId e.1) = true) ∧
        (isPartial = true ∨ ∀ k ∈ allowed, (es.map (fun e => keyId e.1)).contains k = true) := by
  unfold recordEnumKeys
  simp only [List.append_eq_nil_iff]
  have A : ∀ (u : List Nat) (x : Issue), (if u.isEmpty = true then ([] : List Issue) else [x]) = [] ↔ u = [] := by
    intro u x; cases u <;> simp
  rw [A, List.filter_eq_nil_iff]
  have B : (∀ a ∈ es.map (fun e => keyId e.1), ¬ ((!allowed.contains a) = true)) ↔
      ∀ e ∈ es, allowed.contains (keyId e.1) = true := by
    constructor
    · intro h e he
      exact not_bnot_true.1 (h (keyId e.1) (List.mem_map_of_mem he))
    · intro h a ha
      obtain ⟨e, he, rfl⟩ := List.mem_map.1 ha
      exact not_bnot_true.2 (h e he)
  rw [B]
  cases isPartial
  · simp only [Bool.false_eq_true, ↓reduceIte, List.map_eq_nil_iff, List.filter_eq_nil_iff, false_or]
    constructor
    · rintro ⟨h1, h2⟩; exact ⟨h1, fun k hk => not_bnot_true.1 (h2 k hk)⟩
    · rintro ⟨h1, h2⟩; exact ⟨h1, fun k hk => not_bnot_true.2 (h2 k hk)⟩
  · simp

/-- **record**: string-keyed map; size checks; keys (exhaustive enum keys: no other key and — unless
    partial — every enum key present; other key schemas: every key accepted, unless loose); every
    value accepted by the value schema (in loose mode only the values whose key matches). -/
theorem c02_record (cfg : Cfg) (env : Env) (m : Mods) (ks : KeySpec) (vm : Mid) (loose part : Bool)
    (cs : List SizeCk) (v : V) (hv : v.isNilLike = false) :
    (run cfg env (.record m ks vm loose part cs) v).isOk = true ↔
      ∃ es, extractRecord v = some es ∧ sizeOK cs es.length = true ∧ recKeysOK env ks loose part es ∧
        ∀ e ∈ es, recSkip env ks loose e.1 = true ∨ acc env vm e.2 = true := by
  simp only [run, engine_nonNil _ _ _ _ hv]
  have key : ∀ es, (validateRecord cfg env ks vm loose part cs es).isOk = true ↔
      (sizeOK cs es.length = true ∧ recKeysOK env ks loose part es ∧
        ∀ e ∈ es, recSkip env ks loose e.1 = true ∨ acc env vm e.2 = true) := by
    intro es
    unfold validateRecord
    cases hs : sizeIssues cs es.length with
    | cons i is =>
      have : ¬ sizeOK cs es.length = true := by
        intro h; rw [(sizeIssues_nil _ _).2 h] at hs; cases hs
      constructor
      · intro h; cases h
      · intro h; exact absurd h.1 this
    | nil =>
      have hsz := (sizeIssues_nil _ _).1 hs
      cases hr : recordValues cfg env ks vm loose es with
      | some is =>
        have : ¬ ∀ e ∈ es, recSkip env ks loose e.1 = true ∨ acc env vm e.2 = true := by
          intro h; rw [(recordValues_none cfg env ks vm loose es).2 h] at hr; cases hr
        constructor
        · intro h; cases h
        · intro h; exact absurd h.2.2 this
      | none =>
        have hvals := (recordValues_none cfg env ks vm loose es).1 hr
        simp only [ofIssues_isOk]
        cases ks with
        | none => exact ⟨fun _ => ⟨hsz, trivial, hvals⟩, fun _ => rfl⟩
        | enum allowed km =>
          simp only [recordEnumKeys_nil]
          exact ⟨fun h => ⟨hsz, h, hvals⟩, fun h => h.2.1⟩
        | schema km =>
          simp only [recordSchemaKeys_nil]
          exact ⟨fun h => ⟨hsz, h, hvals⟩, fun h => h.2.1⟩
  constructor
  · rintro ⟨es, hx, h⟩; exact ⟨es, hx, (key es).1 h⟩
  · rintro ⟨es, hx, h⟩; exact ⟨es, hx, (key es).2 h⟩

/-! ### the nil slice -/

def c02_nilslice_full : Prop :=
  ∀ (cfg : Cfg) (env : Env) (t : Ty) (e : Mid),
    (run cfg env (.slice {} t e []) (.slice t none)).isOk = true

/-- `Slice[int](Int()).Parse([]int(nil))` is rejected ("expected slice, received slice"): a typed nil
    slice is classified as a nil input, although it is the empty slice. -/
theorem c02_nilslice_false : ¬ c02_nilslice_full := by
  intro h
  have := h {} (fun _ _ => .ok .nil) .int 0
  revert this; decide

/-! ### members the container's code cannot call (`seen`, `built`)

  The laws above hold for every environment, hence also for `seen skip env`, what a container sees
  of members it has no entry point on (a type offering only `Parse` as Slice / Array element — until
  /repo ff6dceb also every `*core.ZodPipe` —, a type implementing exactly `core.ZodSchema` as Map / Set / Record / Struct member).
  Read over the members' OWN verdicts `env`, the law then only holds for callable members. -/

theorem seen_nil (env : Env) : seen [] env = env := by
  funext m v; simp [seen]

theorem acc_seen (skip : List Mid) (env : Env) (m : Mid) (v : V) :
    acc (seen skip env) m v = (skip.contains m || acc env m v) := by
  unfold acc seen
  by_cases h : skip.contains m = true
  · have h' : m ∈ skip := by simpa using h
    rw [if_pos h]; simp [h']
  · have h' : m ∉ skip := by simpa using h
    rw [if_neg h]; simp [h']

/-- **slice over what it sees**: a callable element schema decides every element; one the code
    cannot call decides nothing. -/
theorem c02_slice_seen (cfg : Cfg) (env : Env) (skip : List Mid) (m : Mods) (t : Ty) (e : Mid)
    (cs : List SizeCk) (v : V) (hv : v.isNilLike = false) :
    (run cfg (seen skip env) (.slice m t e cs) v).isOk = true ↔
      ∃ xs, extractSlice t v = some xs ∧ sizeOK cs xs.length = true ∧
        ∀ x ∈ xs, (skip.contains e = true ∨ acc env e x = true) := by
  rw [c02_slice cfg (seen skip env) m t e cs v hv]
  simp only [acc_seen, Bool.or_eq_true]

/-- the composition law for a slice, read over the element schema's OWN verdicts. -/
def c02_callable_full : Prop :=
  ∀ (cfg : Cfg) (env : Env) (skip : List Mid) (t : Ty) (e : Mid) (v : V), v.isNilLike = false →
    ((run cfg (seen skip env) (.slice {} t e []) v).isOk = true ↔
      ∃ xs, extractSlice t v = some xs ∧ ∀ x ∈ xs, acc env e x = true)

/-- … it holds when the element schema is callable … -/
theorem c02_callable_partial (cfg : Cfg) (env : Env) (skip : List Mid) (t : Ty) (e : Mid) (v : V)
    (hv : v.isNilLike = false) (hc : skip.contains e = false) :
    (run cfg (seen skip env) (.slice {} t e []) v).isOk = true ↔
      ∃ xs, extractSlice t v = some xs ∧ ∀ x ∈ xs, acc env e x = true := by
  rw [c02_slice_seen cfg env skip {} t e [] v hv]
  have hc' : e ∉ skip := by simpa using hc
  simp [hc', sizeOK]

/-- … and fails otherwise: `Slice[any](m).Parse([]any{x})` with `m` offering only `Parse` accepts an
    `x` that `m` rejects (`m` is not a `core.ZodSchema`, `types/slice.go:457` never asks it). -/
theorem c02_unasked_member_false : ¬ c02_callable_full := by
  intro h
  have := (h {} (fun _ _ => .err (mk .invalidValue []) []) [0] .any 0
    (.slice .any (some [.atom .str 1])) rfl).1 (by decide)
  obtain ⟨xs, hx, hall⟩ := this
  simp only [extractSlice, ↓reduceIte, Option.some.injEq] at hx
  subst hx
  have := hall (.atom .str 1) (List.mem_singleton.2 rfl)
  simp [acc] at this

/-- `Array([], rest = a schema offering only Parse)`: the constructor drops a rest argument that is not a `core.ZodSchema`;
    the array built has no rest and rejects (too_big) the one-element input its rest schema accepts. -/
theorem c02_array_rest_dropped :
    (run {} (seen [0] (fun _ v => .ok v)) (built [0] (.array {} [] (some 0) []))
        (.slice .any (some [.atom .str 1]))).isOk = false
      ∧ (run {} (fun _ v => .ok v) (.array {} [] (some 0) []) (.slice .any (some [.atom .str 1]))).isOk = true := by
  decide

end Gozod.C02
