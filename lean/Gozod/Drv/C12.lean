/-
  Line handler for C12: histories of chaining calls (same step grammar as C08), conversions and parses.

    c12 <Base> <bag> <vals> <len> <cap> | <recv> <class> … | <i> conv <optionSet> <def> <metas> <bag> <vals> <W> <K> ToJSONSchema@T | <i> parse 0 0 0 <bag> <vals> 0 Parse@T | …

  <K>: `K-`, or `K<internals.Type>/<key>=<value>,…` — the ANNOTATED Bag of the converted schema (what `annotatedInternals` hands
  to the converter) in some non-sorted enumeration order; values `n<gotype>:<%g>` | `s<string>` | `l<string>+…` | `o<gotype>`
  (strings in an injective token encoding that is never decoded: the model only compares, orders and moves them).

  <def>: `0`, or the definition-held member list of the converted schema: `L<A|C><graph>` (literal: what `Values()` hands out,
  A = the definition's own slice, C = a copy; graph `[1,[2,3],1]`, scalars are value ids, 0 = nil) or `E<A|C>[ids]` (enum:
  the member set, sorted ids).

  conv step output:   verdict `<doc equals the isolated conversion 0|1>:<changed,…>`, structure `g<idx,…>` (live schemas whose Bag
  content was rewritten by the conversion) `m<members the document shows>` (with a <def>: `convLiteral` run on the definition
  allocated in the history's store) `r<registry entries>` `!k…` (the keywords `ConvDoc.docOf` derives from <K> through the
  regenerated `applyBag` row: `k=<Field>=<value>,…` every bag-settable keyword of the node, `k~…` only the fields `applyBag`
  assigns, `k-` no prediction).  The store effect of a conv step is `ConvDoc.runTrace` over the regenerated `writeSites`
  (`canonicalTrace`: every site once; a site whose origin is not the conversion's own memory rewrites the live schema's cells).
  parse step: verdict `1:<changed,…>`, structure `-` (Parse does not write the store: `Proofs/C12Doc.lean` states what the
  verdict is a function of).
-/
import Gozod.Drv.C08
import Gozod.Model.DefData
import Gozod.Model.ConvOpts
import Gozod.Model.ConvDoc
namespace Gozod.Drv.C12
open Gozod.Store Gozod.Drv.C08 Gozod.DefData Gozod.ConvOpts

/-! the document-level tie: `K` token → `ConvDoc.Bag`, `ConvDoc.Pred` → `k` structure part -/

def parseBV (s : String) : Option ConvDoc.BV :=
  let body := (s.drop 1).toString
  if s.startsWith "n" then
    match body.splitOn ":" with
    | [ty, r] => some (.num ty r)
    | _ => none
  else if s.startsWith "s" then some (.str body)
  else if s.startsWith "l" then some (.strs (if body == "" then [] else body.splitOn "+"))
  else if s.startsWith "o" then some (.other body)
  else none

def parseEntryKV (s : String) : Option (String × ConvDoc.BV) :=
  match s.splitOn "=" with
  | [k, v] => (parseBV v).map (fun b => (k, b))
  | _ => none

/-- `K<type>/<entries>` → (type, bag); `K-` → none -/
def parseK (s : String) : Option (String × ConvDoc.Bag) :=
  if s == "K-" || !s.startsWith "K" then none else
  match ((s.drop 1).toString).splitOn "/" with
  | [ty, es] => if es == "" then some (ty, []) else ((es.splitOn ",").mapM parseEntryKV).map (fun b => (ty, b))
  | _ => none

def showKV : ConvDoc.KV → String
  | .num r => "n" ++ r
  | .str s => "s" ++ s

def insertKw (p : String × String) : List (String × String) → List (String × String)
  | [] => [p]
  | q :: r => if p.1 ≤ q.1 then p :: q :: r else q :: insertKw p r

/-- the fields of a node sorted by name; `only = some fs`: restricted to `fs` (and without Pattern / AllOf) -/
def showDoc (d : ConvDoc.Doc) (only : Option (List String)) : String :=
  let base : List (String × String) := d.kw.map (fun p => (p.1, showKV p.2))
  let withPats : List (String × String) := match only with
    | some fs => base.filter (fun p => fs.contains p.1)
    | none =>
      base ++ (match d.pattern with | some p => [("Pattern", "s" ++ p)] | none => [])
           ++ (match d.allOf with | some a => [("AllOf", "l" ++ "+".intercalate a)] | none => [])
  ",".intercalate ((withPats.foldl (fun acc p => insertKw p acc) []).map (fun (p : String × String) => p.1 ++ "=" ++ p.2))

def kPart (ktok : String) : String :=
  match parseK ktok with
  | none => "k-"
  | some (ty, b) =>
    match ConvDoc.docOf ty b with
    | .full d => "k=" ++ showDoc d none
    | .part d => "k~" ++ showDoc d (some (ConvDoc.written ConvDoc.applyBagRow b))
    | .nothing => "k-"

/-! registry entries and registry-writing checks as the harness codes them:
    entry `-` | `<id>.<title>.<descr>.<e1>+<e2>+…`; check `D<descr>` | `M<id>.<title>.<descr>.<examples>`;
    the conv step lists the visited schemas that carry such checks: `<j>=<entry before>/<check>/<check>…,<j>=…` -/

def parseGMeta (s : String) : Option GMeta :=
  match s.splitOn "." with
  | [a, b, c, e] => do
    let a ← a.toNat?
    let b ← b.toNat?
    let c ← c.toNat?
    let es ← ((e.splitOn "+").filter (· != "")).mapM (·.toNat?)
    some ⟨a, b, c, es⟩
  | _ => none

def parseEntry (s : String) : Option (Option GMeta) :=
  if s == "-" then some none else (parseGMeta s).map some

def parseMetaCheck (s : String) : Option MetaCheck :=
  if s.startsWith "D" then (s.drop 1).toString.toNat?.map .describe
  else if s.startsWith "M" then (parseGMeta (s.drop 1).toString).map .gmeta
  else none

def showGMeta : Option GMeta → String
  | none => "-"
  | some m => s!"{m.id}.{m.title}.{m.descr}.{"+".intercalate (m.examples.map toString)}"

/-- one visited schema: (live index, entry before, registry-writing checks in order) -/
def parseVisit (s : String) : Option (Nat × Option GMeta × List MetaCheck) :=
  match s.splitOn "=" with
  | [j, rest] =>
    match rest.splitOn "/" with
    | pre :: cks => do
      let j ← j.toNat?
      let pre ← parseEntry pre
      let cks ← cks.mapM parseMetaCheck
      some (j, pre, cks)
    | [] => none
  | _ => none

def parseVisits (s : String) : Option (List (Nat × Option GMeta × List MetaCheck)) :=
  if s == "0" then some [] else (s.splitOn ",").mapM parseVisit

def insertSorted (x : Nat) : List Nat → List Nat
  | [] => [x]
  | y :: ys => if x < y then x :: y :: ys else if x == y then y :: ys else y :: insertSorted x ys

/-- the converter's reading of the definition `dtok` in store `σ`: the store afterwards and the `m…` structure part -/
def defRead (σ : Store) (dtok : String) : Store × String :=
  if dtok == "0" then (σ, "") else
  let kind := dtok.take 1
  let acc := if (dtok.drop 1).take 1 == "A" then Acc.alias else Acc.copy
  let code := (dtok.drop 2).toString
  if kind == "E" then (σ, "m" ++ code)          -- convertEnum: the member set (order: see Gen/ConvAccess, map ranges)
  else
    match parseGraph σ code with
    | (σ1, some (.ref l)) =>
      let r := convLiteral acc σ1 l
      (r.1, "m" ++ showGraph 8 r.1.heap (.ref r.2))
    | (σ1, _) => (σ1, "m-")

/-! in-place rewriting of documents (histories H9): slot 7 of a conv step is `0` or `W<mut>/<items>`, items `-` or
    `<j>=<entry before>:<flags>,…` — the live schemas whose GlobalRegistry entry's example list the document of this conversion
    holds (measured on a scout replica), flags `s` = in the returned document, `h` = in a node handed to the Override.
    Option set 14 = an Override that rewrites in place every list of every node it is handed (stores the sentinel), 15 = the caller
    does the same to the returned document.  The model: `ConvOpts.convertO` with `copy = examplesCopy`. -/

/-- `applyMeta`: `jsonSchema.Examples = slices.Clone(meta.Examples)` (/repo 8997831; before: the registry entry's own list). -/
def examplesCopy : Bool := true

structure WItem where
  j : Nat
  pre : Option GMeta
  shown : Bool
  handed : Bool

def parseWItem (s : String) : Option WItem :=
  match s.splitOn "=" with
  | [j, rest] =>
    match rest.splitOn ":" with
    | [e, fl] => do
      let j ← j.toNat?
      let pre ← parseEntry e
      some ⟨j, pre, fl.contains 's', fl.contains 'h'⟩
    | _ => none
  | _ => none

def parseW (s : String) : Option (Nat × List WItem) :=
  if s == "0" then some (0, [])
  else if s.startsWith "W" then
    match ((s.drop 1).toString).splitOn "/" with
    | [m, items] => do
      let m ← m.toNat?
      if items == "-" then some (m, []) else do
        let its ← (items.splitOn ",").mapM parseWItem
        some (m, its)
    | _ => none
  else none

/-- The registry entry after a document holding its example list has been rewritten in place — by the model: the list is a
    cell of a store, the registry hands it to `convertO` (`copy = examplesCopy`), the Override (`byCallback`) or the caller
    (`overrideWrites` on the returned node) stores the sentinel into every slot, the registry's cell is read back. -/
def rewriteEntry (byCallback : Bool) (mutc : Nat) (e : GMeta) : GMeta :=
  let σ0 : Store := { heap := fun _ => none, next := 1 }
  match mkSlice σ0 (e.examples.map UVal.scalar) with
  | (σ1, .ref l) =>
    let g : Reg := fun t => if t = 0 then some ⟨e.id, e.title, e.descr, some l⟩ else none
    let s : Schema := { self := 0, kind := 0, flags := 0, checks := ⟨0, 0, 0⟩, bag := none, values := none, shape := none, dflt := none }
    let rw : List (Nat × UVal) → List (Nat × UVal) := fun kv => kv.map (fun p => (p.1, UVal.scalar mutc))
    let final : Store :=
      if byCallback then (convertO fixed examplesCopy ⟨⟨0, 0, 0, 0, 0⟩, none, none, some ⟨fun _ v => v, fun _ => rw⟩⟩ g σ1 s).1
      else
        let r := convertO fixed examplesCopy noOpts g σ1 s
        overrideWrites r.1 r.2.examples rw
    { e with examples := (readNode final.heap l).map (fun p => match p.2 with | .scalar n => n | .ref _ => 0) }
  | _ => e

def editedBefore (mutc : Nat) (it : WItem) : Bool :=
  match it.pre with
  | some e => !e.examples.isEmpty && e.examples.all (· == mutc)
  | none => false

def stepModel12 (cfg : Cfg) (st : St) (toks : List String) : Option St :=
  match toks with
  | [_recv, "convreg", _, _, _, _, _, _, _] =>
    -- ToJSONSchema(registry): purity is claimed (no live schema changes), determinism is not (`c12_ranges_partial` excludes the
    -- `Registry.Range` loop: `registry_range_order_sensitive`): verdict `r` = "the document may differ"
    some { st with verdicts := st.verdicts ++ ["r:"], structs := st.structs ++ ["g"] }
  | [recv, "conv", opt, dtok, metas, _, _, wtok, ktok, _] => do
    let (mutc, witems) ← parseW wtok
    let i ← recv.toNat?
    let s ← st.live[i]?
    let visits ← parseVisits metas
    -- the definition's member list is allocated in the history's store and read by the converter there: every live
    -- schema's observation is compared before (st.σ) and after (σ') both the reading and the Bag part of the conversion
    let (σd, mpart) := defRead st.σ dtok
    -- the store effect: the fold of the regenerated table's write sites (`ConvDoc.runTrace`); the Bag-level `convert` of
    -- Model/Store.lean (purity by definition under `convScratch`) is no longer what the prediction goes through
    let _ := cfg
    let σ' := ConvDoc.runTrace Gozod.Gen.ConvAccess.writeSites σd s (ConvDoc.canonicalTrace Gozod.Gen.ConvAccess.writeSites σd s)
    let s' := s
    let before := st.live.map (obs st.σ.heap)
    let after := st.live.map (obs σ'.heap)
    let noBag (o : Obs) : Obs := { o with bag := none }
    let changed0 := (List.range st.live.length).filter (fun j => before[j]?.map noBag != after[j]?.map noBag)
    let bagChanged := (List.range st.live.length).filter (fun j => before[j]?.map (·.bag) != after[j]?.map (·.bag))
    -- the registry-writing callbacks of every visited schema (`annotateEntry`); aliases of a schema in the live list
    -- (same identity) change with it
    let posts0 := visits.map (fun v => (v.1, v.2.1, annotateEntry v.2.1 v.2.2))
    -- in-place rewriting through the document (after the callbacks of the checks have run): the entries whose example list
    -- the rewritten nodes hold
    let byCallback := opt == "14"
    let edits := witems.filter (fun it => if opt == "14" then it.handed else if opt == "15" then it.shown else false)
    let preOf (it : WItem) : Option GMeta :=
      match posts0.find? (fun p => p.1 == it.j) with
      | some p => p.2.2
      | none => it.pre
    let wposts := edits.map (fun it => (it.j, preOf it, (preOf it).map (rewriteEntry byCallback mutc)))
    let finalOf (j : Nat) (dflt : Option GMeta) : Option GMeta :=
      match wposts.find? (fun p => p.1 == j) with
      | some p => p.2.2
      | none => dflt
    let posts := posts0.map (fun p => (p.1, p.2.1, finalOf p.1 p.2.2))
    let wChanged := (wposts.filter (fun p => (witems.find? (fun it => it.j == p.1)).bind (·.pre) != p.2.2)).map (·.1)
    let regChanged := (posts.filter (fun p => p.2.1 != p.2.2)).map (·.1) ++ wChanged
    let withAliases := (List.range st.live.length).filter (fun j =>
      regChanged.any (fun k => match st.live[j]?, st.live[k]? with | some a, some b => a.self == b.self | _, _ => false))
    let changed := (withAliases ++ regChanged).foldl (fun acc x => insertSorted x acc) changed0
    -- the document is a function of the observation: equal to the isolated conversion iff the observation is
    -- … except through a registry entry rewritten in place earlier: a document that shows such an entry differs from the
    -- isolated twin's (under option set 14 the twin's Override rewrites the lists of the nodes it is handed in the same way; a
    -- list that is only in the returned document — the `$defs` entry of a schema with an ID, whose node is a `$ref` — is not)
    let same := (obs σ'.heap s').checks == (obs st.σ.heap s).checks   -- checks never change; bag effects show in `changed`
                && !(witems.any (fun it => it.shown && editedBefore mutc it && !(opt == "14" && it.handed)))
    let r := if posts.isEmpty then "" else "r" ++ ",".intercalate (posts.map (fun p => s!"{p.1}={showGMeta p.2.2}"))
    let w := if wposts.isEmpty then "" else "w" ++ ",".intercalate (wposts.map (fun p => s!"{p.1}={showGMeta p.2.2}"))
    let g := s!"g{idxList bagChanged}{mpart}{r}{w}!{kPart ktok}"
    some { st with σ := σ', verdicts := st.verdicts ++ [s!"{if same then 1 else 0}:{idxList changed}"],
                   structs := st.structs ++ [g] }
  | [_recv, "parse", _, _, _, _, _, _, _] =>
    some { st with verdicts := st.verdicts ++ ["1:"], structs := st.structs ++ ["-"] }
  | _ => stepModel cfg st toks

def runSteps12 (cfg : Cfg) (st : St) : List (List String) → Option St
  | [] => some st
  | s :: rest => match stepModel12 cfg st s with
    | some st' => runSteps12 cfg st' rest
    | none => none

def handleWith (cfg : Cfg) (toks : List String) : String :=
  match splitOnBar toks with
  | [_base, bag, vals, len, cap] :: steps =>
    match len.toNat?, cap.toNat? with
    | some len, some cap =>
      let (σ, s) := build { heap := fun _ => none, next := 1 } len cap bag vals
      match runSteps12 cfg { σ := σ, live := [s], verdicts := [], structs := [] } steps with
      | some st =>
        let spec := ";".intercalate (steps.map (fun _ => "1:"))
        s!"V:{";".intercalate st.verdicts} S:{";".intercalate st.structs}\tV:{spec}"
      | none => "bad-op"
    | _, _ => "bad-op"
  | _ => "bad-op"

def handle : List String → String := handleWith fixed

end Gozod.Drv.C12
