/-
  Transcription of `pkg/tagparser/parser.go` (`ParseTagString`, `splitParts`, `parseRule`,
  the `unescaper` replacer) over strings given as lists of code points (`List Nat`).

  Representation.  `splitParts` walks the tag with `for i, ch := range tag`, i.e. over the runes
  Go decodes from the bytes (an invalid byte decodes to U+FFFD and is re-encoded by
  `WriteRune`).  The model starts from that rune sequence (`[]rune(tag)`, the same decoding) and
  every later string is the UTF-8 encoding of a rune list, so rune lists lose nothing.  The only
  byte index the code uses is `i+1 < len(tag)` while looking at a one-byte rune (`\`): "some rune
  follows", which is what the model tests.

  Every slice expression of the Go code is a `goSlice` here: out-of-range bounds are an
  `Except.error` (Go: run-time panic), never a silently clamped result.

  `legacy := true` is the code as pinned (no length guard before `raw[1:len(raw)-1]`);
  `legacy := false` is the code after pending/C06-tagparser.diff (`len(raw) >= 2 &&`).
-/
namespace Gozod.TagParser

abbrev Str := List Nat

/-- `unicode.IsSpace`. -/
def isSpace (c : Nat) : Bool :=
  c == 0x20 || (0x09 ≤ c && c ≤ 0x0D) || c == 0x85 || c == 0xA0 || c == 0x1680 ||
  (0x2000 ≤ c && c ≤ 0x200A) || c == 0x2028 || c == 0x2029 || c == 0x202F || c == 0x205F || c == 0x3000

def cBackslash : Nat := 0x5C
def cDQuote : Nat := 0x22
def cSQuote : Nat := 0x27
def cLBracket : Nat := 0x5B
def cRBracket : Nat := 0x5D
def cLBrace : Nat := 0x7B
def cRBrace : Nat := 0x7D
def cComma : Nat := 0x2C
def cEq : Nat := 0x3D

/-- Go `s[lo:hi]` on a string/slice of length `s.length`: panics unless `0 ≤ lo ≤ hi ≤ len`. -/
def goSlice (s : Str) (lo hi : Int) : Except String Str :=
  if 0 ≤ lo ∧ lo ≤ hi ∧ hi ≤ (s.length : Int) then
    .ok ((s.take hi.toNat).drop lo.toNat)
  else
    .error s!"slice bounds out of range [{lo}:{hi}]"

/-! ### splitParts -/

structure St where
  parts : List Str := []
  buf : Str := []
  brackets : Int := 0
  braces : Int := 0
  quoted : Bool := false
  quote : Nat := 0
  escaped : Bool := false
  deriving Repr, DecidableEq

/-- One iteration of the `for i, ch := range tag` loop; `more` is `i+1 < len(tag)`. -/
def step (s : St) (ch : Nat) (more : Bool) : St :=
  if s.escaped then { s with buf := s.buf ++ [ch], escaped := false }
  else if ch = cBackslash then { s with buf := s.buf ++ [ch], escaped := more }
  else if ch = cDQuote ∨ ch = cSQuote then
    if !s.quoted then { s with quoted := true, quote := ch, buf := s.buf ++ [ch] }
    else if ch = s.quote then { s with quoted := false, buf := s.buf ++ [ch] }
    else { s with buf := s.buf ++ [ch] }
  else if ch = cLBracket then
    { s with brackets := if !s.quoted then s.brackets + 1 else s.brackets, buf := s.buf ++ [ch] }
  else if ch = cRBracket then
    { s with brackets := if !s.quoted then s.brackets - 1 else s.brackets, buf := s.buf ++ [ch] }
  else if ch = cLBrace then
    { s with braces := if !s.quoted then s.braces + 1 else s.braces, buf := s.buf ++ [ch] }
  else if ch = cRBrace then
    { s with braces := if !s.quoted then s.braces - 1 else s.braces, buf := s.buf ++ [ch] }
  else if ch = cComma then
    if !s.quoted ∧ s.brackets = 0 ∧ s.braces = 0 then { s with parts := s.parts ++ [s.buf], buf := [] }
    else { s with buf := s.buf ++ [ch] }
  else { s with buf := s.buf ++ [ch] }

def run (s : St) : Str → St
  | [] => s
  | ch :: rest => run (step s ch (!rest.isEmpty)) rest

/-- `splitParts`: the trailing buffer is a part only when non-empty. -/
def splitParts (tag : Str) : List Str :=
  let s := run {} tag
  if s.buf ≠ [] then s.parts ++ [s.buf] else s.parts

/-! ### strings helpers used by parseRule -/

def trimLeft (s : Str) : Str := s.dropWhile isSpace
def trimRight (s : Str) : Str := (s.reverse.dropWhile isSpace).reverse
/-- `strings.TrimSpace`. -/
def trimSpace (s : Str) : Str := trimRight (trimLeft s)

/-- `strings.Cut(s, "=")`. -/
def cutEq : Str → Str × Str × Bool
  | [] => ([], [], false)
  | c :: rest =>
    if c = cEq then ([], rest, true)
    else
      let (a, b, ok) := cutEq rest
      if ok then (c :: a, b, true) else (c :: rest, [], false)

/-- `strings.Fields`: maximal runs of non-space runes. -/
def fieldsAux : Str → Str → List Str
  | [], cur => if cur = [] then [] else [cur]
  | c :: rest, cur =>
    if isSpace c then (if cur = [] then fieldsAux rest [] else cur :: fieldsAux rest [])
    else fieldsAux rest (cur ++ [c])
def fields (s : Str) : List Str := fieldsAux s []

/-- `unescaper.Replace` — `strings.NewReplacer(`\,`→`,`  `\n`→LF  `\t`→TAB  `\'`→`'`  `\\`→`\`)`:
    left-to-right scan, non-overlapping, every key is two bytes starting with a backslash. -/
def unescape : Str → Str
  | [] => []
  | [c] => [c]
  | c :: d :: rest =>
    if c = cBackslash then
      if d = cComma then cComma :: unescape rest
      else if d = 0x6E then 0x0A :: unescape rest
      else if d = 0x74 then 0x09 :: unescape rest
      else if d = cSQuote then cSQuote :: unescape rest
      else if d = cBackslash then cBackslash :: unescape rest
      else c :: unescape (d :: rest)
    else c :: unescape (d :: rest)

structure Rule where
  name : Str
  /-- `none` = Go `nil` Params (rule without `=` or with empty right-hand side) -/
  params : Option (List Str)
  deriving Repr, DecidableEq

def hasPrefixQ (s : Str) : Bool := s.head? = some cSQuote
def hasSuffixQ (s : Str) : Bool := s.getLast? = some cSQuote

/-- `parseRule(part)`; `part` is already `TrimSpace`d by the caller. -/
def parseRule (legacy : Bool) (part : Str) : Except String Rule :=
  if part = [] then .ok ⟨[], none⟩
  else
    let (name, raw, ok) := cutEq part
    if !ok then .ok ⟨trimSpace part, none⟩
    else
      let name := trimSpace name
      let raw := trimSpace raw
      if raw = [] then .ok ⟨name, none⟩
      else if (legacy || decide (raw.length ≥ 2)) && hasPrefixQ raw && hasSuffixQ raw then
        -- params = []string{unescaper.Replace(raw[1 : len(raw)-1])}
        match goSlice raw 1 ((raw.length : Int) - 1) with
        | .ok inner => .ok ⟨name, some [unescape inner]⟩
        | .error e => .error e
      else if raw.contains 0x20 then .ok ⟨name, some (fields raw)⟩
      else .ok ⟨name, some [raw]⟩

/-- the loop of `ParseTagString` over the parts. -/
def parseParts (legacy : Bool) : List Str → Except String (List Rule)
  | [] => .ok []
  | p :: ps =>
    match parseRule legacy (trimSpace p) with
    | .error e => .error e
    | .ok r =>
      match parseParts legacy ps with
      | .error e => .error e
      | .ok rs => .ok (if r.name ≠ [] then r :: rs else rs)

/-- `(*TagParser).ParseTagString`. -/
def parseTag (legacy : Bool) (tag : Str) : Except String (List Rule) :=
  if tag = [] then .ok [] else parseParts legacy (splitParts tag)

end Gozod.TagParser
