"""C16 — numeric bounds and multiples are exact."""
from . import common as C
from . import numgen

MANIFEST = dict(
   technique="Lean 4 proof (exactness of compareNumeric/cmpIntFloat/multipleOfInts over all of Int and all dyadic floats) + translator (go/ast over pkg/validate, internal/checks, types/integer.go, types/float.go -> Gen/NumDispatch.lean, regenerated on every run; the model is proved equal to the interpreted tables) + differential correspondence of the model against pkg/validate and real numeric schemas",
   text="Theorems c16_cmp / c16_int_cmp / c16_int_float_cmp / c16_multiple_int prove, for every operand pair of every Go numeric kind, that the transcribed comparison and integer-multiple algorithms equal the mathematical relation (NaN unordered). The model is tied to /repo (a) by translation: toNum_table, compareNumeric_table, cmpIntFloat_table, cmpOps_table, methods_table and the structure fingerprints are proved over the dispatch table regenerated from the source, so a re-routed arm, an edited range constant, a changed sign test or a re-wired schema method changes a proof obligation; (b) by running both on exhaustive 8-bit (thorough: 16-bit) enumerations and a 2^k-boundary grid over all 144 kind pairs, directly and through real schemas.",
   note="Trusted: Lean kernel; axioms propext/Classical.choice/Quot.sound only; the Go harness and comparer; Go float64 operators and math.Trunc being IEEE-754. Float MultipleOf (documented epsilon rule) is modelled exactly on dyadic floats (Model/NumFloat.lean) and held to the theorems of Proofs/C16Float.lean (never rejects an exact multiple; zero/NaN accept nothing), not to exact divisibility. cmpInts/multipleOfInts/cmpFloats are tied by text fingerprint and generated cases; the translator harness/numgen is trusted.",
   design="DESIGN.md §5 C16")

MODULES = ["Gozod.Proofs.C16", "Gozod.Proofs.C16Dispatch", "Gozod.Proofs.C16Float", "Gozod.Proofs.C16Arms"]
THEOREMS = [
    "Gozod.C16.c16_cmp", "Gozod.C16.c16_int_cmp", "Gozod.C16.c16_sign", "Gozod.C16.c16_float_cmp",
    "Gozod.C16.c16_nan_left", "Gozod.C16.c16_nan_right", "Gozod.C16.c16_neg_zero", "Gozod.C16.c16_zero_eq",
    "Gozod.C16.c16_int_float_cmp", "Gozod.C16.c16_multiple_int", "Gozod.C16.cmpInts_exact",
    "Gozod.C16.multipleOfInts_exact", "Gozod.C16.legacy_cmp_inexact", "Gozod.C16.legacy_multiple_eps",
    # over the tables regenerated from the source (Gen/NumDispatch.lean)
    "Gozod.C16D.toNum_table", "Gozod.C16D.toNum_types_known", "Gozod.C16D.compareNumeric_table", "Gozod.C16D.cmpIntFloat_table",
    "Gozod.C16D.cmpOps_table", "Gozod.C16D.c16_cmp_table", "Gozod.C16D.sign_ops", "Gozod.C16D.check_ctors",
    "Gozod.C16D.cmpFloats_arms", "Gozod.C16D.cmpInts_arms", "Gozod.C16D.multipleOfInts_arms", "Gozod.C16D.multipleOf_consts",
    "Gozod.C16D.frames", "Gozod.C16D.methods_table",
    # the float branch of MultipleOf (documented epsilon rule, Model/NumFloat.lean)
    "Gozod.C16F.c16_float_multiple_complete", "Gozod.C16F.c16_float_multiple_zero", "Gozod.C16F.c16_float_multiple_nan",
    "Gozod.C16F.float_multiple_not_exact", "Gozod.C16F.float_multiple_inf_divisor", "Gozod.C16F.zero_lt_eps",
    # cmpFloats / cmpInts / multipleOfInts: bodies translated clause by clause into Model/Arms.lean terms and interpreted
    "Gozod.C16A.cmpFloats_table", "Gozod.C16A.cmpInts_table", "Gozod.C16A.multipleOfInts_table",
    "Gozod.C16A.cmpInts_table_exact", "Gozod.C16A.multipleOfInts_table_exact",
]

def key(op, impl, M, S):
    t = C.op_body(op).split(" ")
    how = C.op_comment(op).split(":")[0]
    if impl.startswith("panic"): return "panic:" + t[1]
    # c16 cmp <op> ka a kb b | c16 mul ka a kb b
    if t[1] in ("cmp", "xcmp"):
        ka, a, kb, b = t[3], t[4], t[5], t[6]
    else:
        ka, a, kb, b = t[2], t[3], t[4], t[5]
    fl = lambda k: "float" if k.startswith("f") else ("ext" if k in ("nx", "cx", "big") else "int")
    big = ""
    if fl(ka) == "int" and fl(kb) == "int":
        big = ":above2^53" if max(abs(int(a)), abs(int(b))) > 2 ** 53 else ":small"
    return "%s:%s-vs-%s%s:%s" % (t[1], fl(ka), fl(kb), big, how)

def describe(op):
    return "see harness/c16.go; direct = validate.<Op>(value, bound); schema:<variant>:<ptrInput>:<Method> = gozod.<Kind>[Ptr]().<Method>(bound).Parse(value)"

def run(res):
    # translator: regenerate Gen/NumDispatch.lean from the working tree, then the proofs over it
    gok, gdetail, gdiff = numgen.regenerate(res, "C16", "NumDispatch.lean")
    if not gok:
        C.tie_broken(res, "translator C16/NumDispatch", gdetail)
    ok, detail = C.prove(res, MODULES, THEOREMS)
    if not ok:
        C.tie_broken(res, "proof Gozod.Proofs.C16 + C16Dispatch over the regenerated NumDispatch", detail + numgen.explain(gdiff))
    data, err = C.correspond(res, "C16")
    if data is None:
        C.tie_broken(res, "correspondence C16/compareNumeric", err)
        return res.finish()
    C.decide(res, "C16", data, key, "C16/compareNumeric+multipleOfInts", describe=describe)
    res.coverage["rule"] = ("exhaustive int8/uint8 inputs x int64 bounds in [-130,260] x 4 operators and divisors in [-17,17]; "
        "grid x grid (0, +-1, +-2^k, +-2^k+-1, type limits and neighbours, float neighbours of 2^k, +-0, +-Inf, NaN) over all 12x12 kind pairs "
        "directly against pkg/validate; and through real schemas (value/pointer constructors, value/pointer inputs, "
        "Gt/Gte/Lt/Lte/Min/Max/Positive/Negative/NonNegative/NonPositive/MultipleOf/Step). distinct = distinct op lines.")
    res.assumptions += [
        "Go's float64 <, > and math.Trunc are IEEE-754 (F.cmp / truncInt model them on exact dyadic rationals)",
        "float MultipleOf keeps the documented epsilon rule and is outside C16's exact-divisibility clause; it is modelled exactly (Model/NumFloat.lean: fmod exact, product and difference rounded to nearest-even) and compared case by case (fmul lines: the model observation is the oracle)",
        "amd64: int/uint are 64-bit",
    ]
    return res.finish()
