/-
  Gozod.Model.StrU — `strings.TrimSpace`, `strings.ToLower`, `strings.ToUpper` (what
  `ZodString.Trim/ToLowerCase/ToUpperCase` apply, types/string.go:264,641,648) on arbitrary byte
  strings, valid UTF-8 or not.

  * `decode` transcribes `utf8.DecodeRune` (shortest-form only, surrogates and > U+10FFFF rejected;
    an invalid or truncated sequence decodes as (U+FFFD, width 1)); `encode` is `utf8.AppendRune`.
  * `strings.TrimSpace` = `TrimFunc(s, unicode.IsSpace)`: strip leading runes decoded forward, then
    trailing runes decoded backward (`DecodeLastRune`: the last rune is a white-space rune exactly when
    the string ends with that rune's encoding). An invalid byte is U+FFFD, not white space: trimming stops.
  * `strings.ToLower/ToUpper`: byte-wise on pure ASCII, else `strings.Map(unicode.ToLower, s)`: every
    rune is re-encoded after mapping, every invalid byte becomes U+FFFD (3 bytes).
  * `unicode.IsSpace / ToLower / ToUpper` are the Go toolchain's tables, regenerated behaviourally over
    all runes into `Gen/CaseTable.lean` (trusted: the Go standard library, not gozod code).
-/
import Gozod.Model.Str
import Gozod.Gen.CaseTable
namespace Gozod.StrU
open Gozod

def isCont (c : Nat) : Bool := 0x80 ≤ c && c ≤ 0xBF

/-- `utf8.DecodeRune`: (rune, width). -/
def decode : Bytes → Nat × Nat
  | [] => (0xFFFD, 0)
  | b0 :: rest =>
    if b0 < 0x80 then (b0, 1)
    else if 0xC2 ≤ b0 && b0 ≤ 0xDF then
      match rest with
      | b1 :: _ => if isCont b1 then ((b0 % 32) * 64 + b1 % 64, 2) else (0xFFFD, 1)
      | _ => (0xFFFD, 1)
    else if 0xE0 ≤ b0 && b0 ≤ 0xEF then
      match rest with
      | b1 :: b2 :: _ =>
        let lo := if b0 == 0xE0 then 0xA0 else 0x80
        let hi := if b0 == 0xED then 0x9F else 0xBF
        if lo ≤ b1 && b1 ≤ hi && isCont b2 then ((b0 % 16) * 4096 + (b1 % 64) * 64 + b2 % 64, 3) else (0xFFFD, 1)
      | _ => (0xFFFD, 1)
    else if 0xF0 ≤ b0 && b0 ≤ 0xF4 then
      match rest with
      | b1 :: b2 :: b3 :: _ =>
        let lo := if b0 == 0xF0 then 0x90 else 0x80
        let hi := if b0 == 0xF4 then 0x8F else 0xBF
        if lo ≤ b1 && b1 ≤ hi && isCont b2 && isCont b3 then
          ((b0 % 8) * 262144 + (b1 % 64) * 4096 + (b2 % 64) * 64 + b3 % 64, 4)
        else (0xFFFD, 1)
      | _ => (0xFFFD, 1)
    else (0xFFFD, 1)

/-- `utf8.AppendRune`. -/
def encode (r : Nat) : Bytes :=
  if r < 0x80 then [r]
  else if r < 0x800 then [0xC0 + r / 64, 0x80 + r % 64]
  else if (0xD800 ≤ r && r ≤ 0xDFFF) || r > 0x10FFFF then [0xEF, 0xBF, 0xBD]
  else if r < 0x10000 then [0xE0 + r / 4096, 0x80 + r / 64 % 64, 0x80 + r % 64]
  else [0xF0 + r / 262144, 0x80 + r / 4096 % 64, 0x80 + r / 64 % 64, 0x80 + r % 64]

def isSpaceRune (r : Nat) : Bool := Gozod.Gen.spaceRunes.contains r

/-- `unicode.To(case, r)` from a regenerated range table. -/
def mapRune (tbl : List (Nat × Nat × Nat × Nat)) (r : Nat) : Nat :=
  match tbl.find? (fun e => e.1 ≤ r && r ≤ e.2.1 && (r - e.1) % e.2.2.1 == 0) with
  | some e => r + e.2.2.2 - e.1
  | none => r

def lowerRune : Nat → Nat := mapRune Gozod.Gen.lowerRanges
def upperRune : Nat → Nat := mapRune Gozod.Gen.upperRanges

/-- `strings.TrimLeftFunc(s, unicode.IsSpace)` (fuel = length). -/
def trimLeft : Nat → Bytes → Bytes
  | 0, b => b
  | _, [] => []
  | fuel + 1, b =>
    let (r, w) := decode b
    if isSpaceRune r && w > 0 then trimLeft fuel (b.drop w) else b

/-- The encodings of the white-space runes. -/
def spaceSeqs : List Bytes := Gozod.Gen.spaceRunes.map encode

/-- `strings.TrimRightFunc(s, unicode.IsSpace)`. -/
def trimRight : Nat → Bytes → Bytes
  | 0, b => b
  | fuel + 1, b =>
    match spaceSeqs.find? (fun s => s.isSuffixOf b) with
    | some s => trimRight fuel (b.take (b.length - s.length))
    | none => b

/-- `strings.TrimSpace`. -/
def trim (b : Bytes) : Bytes := trimRight b.length (trimLeft b.length b)

/-- `strings.Map(f, s)` for a mapping that never drops a rune. -/
def mapRunes (f : Nat → Nat) : Nat → Bytes → Bytes
  | 0, _ => []
  | _, [] => []
  | fuel + 1, b =>
    let (r, w) := decode b
    encode (f r) ++ mapRunes f fuel (b.drop w)

def isASCII (b : Bytes) : Bool := b.all (· < 0x80)

/-- `strings.ToLower` / `strings.ToUpper`. -/
def lower (b : Bytes) : Bytes := if isASCII b then b.map Str.lowerByte else mapRunes lowerRune b.length b
def upper (b : Bytes) : Bytes := if isASCII b then b.map Str.upperByte else mapRunes upperRune b.length b

/-- The string overwrites with Go's Unicode behaviour. -/
def apply : Str.SOw → Bytes → Bytes
  | .trim, b => trim b
  | .lower, b => lower b
  | .upper, b => upper b
  | .custom k, b => Str.customOw k b

/-- The string environment with Unicode-aware overwrites (predicates are byte-level as in `Str.env`). -/
def env : Env Str.SPred Str.SOw Nat Bytes := ⟨Str.holds, apply, Str.customTr⟩

end Gozod.StrU
