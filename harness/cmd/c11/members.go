package main

// const / enum members and the instances that probe them.
//
// Members are heterogeneous on purpose: every JSON kind (null, booleans, integers, fractions, negative numbers, the same
// number spelled 1 / 1.0 / 1e0, strings incl. the empty string, and — in root documents — arrays and objects), strings
// that SPELL another member's JSON text ("1" next to 1, "true" next to true, "null" next to null, "\"a\"" next to "a",
// "[1]" next to [1]), the value a string member spells, repeats, and every order of such a pair.  JSON Schema compares
// members by JSON equality (Draft 2020-12 §4.2.2), never by text.
//
// Instances: every member, every member's JSON text as a string, every string member read as JSON, and near misses of
// each member (number ± a quarter / ± 1, string with a character more / less / other case / padded, the other boolean,
// the "empty" values next to null, arrays with an element more / less / changed / reversed / unwrapped, objects with the
// keys reordered (equal!), a key more / less, a value changed).

import (
	"encoding/json"
	"math"
	"sort"
	"strings"

	"verifharness/hx"
)

var memberWords = []string{"a", "b", "ab", "x.y", "zz", "A", "", "1", "0", "true", "false", "null", "1.5", "-1", "[]", "{}", " a"}

func (j *J) composite() bool { return j.T == "a" || j.T == "o" }

func hasCompositeMember(d *D) bool {
	if d == nil || d.Bool != nil {
		return false
	}
	for _, k := range d.Kws {
		if k.Name == "const" || k.Name == "enum" {
			for _, p := range k.Prims {
				if p.composite() {
					return true
				}
			}
		}
	}
	return false
}

// jFromAny turns an encoding/json value into the instance AST; ok=false when a number is not a multiple of 1/4
// (the op grammar carries numbers in quarter units) or is too large.
func jFromAny(v any) (*J, bool) {
	switch x := v.(type) {
	case nil:
		return jNull(), true
	case bool:
		return jBool(x), true
	case float64:
		q := x * 4
		if q != math.Trunc(q) || math.Abs(q) > 1e9 {
			return nil, false
		}
		return jQ(int64(q)), true
	case string:
		return jStr(x), true
	case []any:
		out := jArr()
		for _, e := range x {
			c, ok := jFromAny(e)
			if !ok {
				return nil, false
			}
			out.A = append(out.A, c)
		}
		return out, true
	case map[string]any:
		ks := make([]string, 0, len(x))
		for k := range x {
			ks = append(ks, k)
		}
		sort.Strings(ks)
		out := jObj()
		for _, k := range ks {
			c, ok := jFromAny(x[k])
			if !ok {
				return nil, false
			}
			out = out.with(k, c)
		}
		return out, true
	}
	return nil, false
}

// spelled: the JSON value a string spells, if it spells one ("1" → 1, "[1]" → [1], "\"a\"" → "a").
func spelled(s string) (*J, bool) {
	if strings.TrimSpace(s) != s || s == "" {
		return nil, false
	}
	var v any
	if err := json.Unmarshal([]byte(s), &v); err != nil {
		return nil, false
	}
	return jFromAny(v)
}

func asciiOnly(s string) bool {
	for _, r := range s {
		if r < 32 || r > 126 {
			return false
		}
	}
	return true
}

// scalar: one member of any scalar kind.
func (g *gen) scalar() *J {
	switch g.r.Intn(12) {
	case 0, 1, 2, 3:
		return jStr(hx.Pick(g.r, memberWords))
	case 4, 5:
		n := jInt(int64(g.r.Intn(4)))
		n.F = hx.Pick(g.r, []int{0, 0, 1, 2})
		return n
	case 6:
		return jInt(int64(-1 - g.r.Intn(3)))
	case 7, 8:
		return jQ(int64(2 + 4*g.r.Intn(3)))
	case 9, 10:
		return jBool(g.r.Bool())
	default:
		return jNull()
	}
}

// composite: an array or object member of depth <= dep.
func (g *gen) compositeVal(dep int) *J {
	elem := func() *J {
		if dep > 1 && g.r.Chance(30) {
			return g.compositeVal(dep - 1)
		}
		return g.scalar()
	}
	if g.r.Bool() {
		out := jArr()
		for i, n := 0, g.r.Intn(4); i < n; i++ {
			out.A = append(out.A, elem())
		}
		return out
	}
	out := jObj()
	for i, n := 0, g.r.Intn(4); i < n; i++ {
		out = out.with(keys[i], elem())
	}
	return out
}

// memberList: n base members (composite ones only if allowed), then the deliberate relatives of some of them.
func (g *gen) memberList(n int, compositeOK bool) []*J {
	var ms []*J
	for i := 0; i < n; i++ {
		if compositeOK && g.r.Chance(45) {
			ms = append(ms, g.compositeVal(2))
		} else {
			ms = append(ms, g.scalar())
		}
	}
	insert := func(at int, m *J, after bool) {
		if after {
			at++
		}
		ms = append(ms[:at], append([]*J{m}, ms[at:]...)...)
	}
	for round := 0; round < 2; round++ {
		if !g.r.Chance(55) {
			continue
		}
		i := g.r.Intn(len(ms))
		m := ms[i]
		switch g.r.Intn(4) {
		case 0, 1: // a string spelling this member's JSON text, before or after it
			if t := m.JSON(); asciiOnly(t) {
				insert(i, jStr(t), g.r.Bool())
			}
		case 2: // the value this string member spells
			if m.T == "s" {
				if v, ok := spelled(m.S); ok && (compositeOK || !v.composite()) {
					insert(i, v, g.r.Bool())
				}
			}
		default: // a repeat (numbers: possibly spelled differently; objects: keys reversed)
			c := *m
			if c.T == "q" {
				c.F = g.r.Intn(3)
			}
			if c.T == "o" && len(c.Ks) > 1 {
				c.Ks, c.Vs = reverseStrs(c.Ks), reverseJs(c.Vs)
			}
			insert(i, &c, g.r.Bool())
		}
	}
	return ms
}

func reverseStrs(a []string) []string {
	out := make([]string, len(a))
	for i, s := range a {
		out[len(a)-1-i] = s
	}
	return out
}

func reverseJs(a []*J) []*J {
	out := make([]*J, len(a))
	for i, s := range a {
		out[len(a)-1-i] = s
	}
	return out
}

// nearMisses of one member (none of them equal to it, except the reordered object, which IS equal).
func nearMisses(m *J, depth int) []*J {
	var out []*J
	switch m.T {
	case "n":
		out = append(out, jStr("null"), jInt(0), jBool(false), jStr(""))
	case "b":
		out = append(out, jBool(!m.B), jStr(m.JSON()), jInt(map[bool]int64{true: 1, false: 0}[m.B]))
	case "q":
		out = append(out, jQ(m.Q+1), jQ(m.Q-4), jQ(-m.Q), jStr(qText(m.Q)+".0"))
		if m.Q == 0 {
			out = append(out, jBool(false))
		}
	case "s":
		out = append(out, jStr(m.S+"x"), jStr(" "+m.S), jStr(strings.ToUpper(m.S)), jStr(strings.ToLower(m.S)))
		if len(m.S) > 0 {
			out = append(out, jStr(m.S[:len(m.S)-1]))
		}
		if asciiOnly(m.S) {
			out = append(out, jStr(m.JSON())) // the string's own JSON text, quotes included
		}
	case "a":
		out = append(out, jArr(append(append([]*J{}, m.A...), jInt(1))...), jArr(m))
		if n := len(m.A); n > 0 {
			out = append(out, jArr(m.A[:n-1]...), m.A[0], jArr(reverseJs(m.A)...)) // shorter, unwrapped, reversed
			if depth < 2 {
				for _, c := range nearMisses(m.A[0], depth+1) {
					out = append(out, jArr(append([]*J{c}, m.A[1:]...)...))
				}
			}
		} else {
			out = append(out, jObj())
		}
	case "o":
		out = append(out, m.with("zz", jInt(1)))
		if n := len(m.Ks); n > 0 {
			rev := &J{T: "o", Ks: reverseStrs(m.Ks), Vs: reverseJs(m.Vs)}
			out = append(out, rev, m.without(m.Ks[n-1]), m.Vs[0])
			if depth < 2 {
				for _, c := range nearMisses(m.Vs[0], depth+1) {
					out = append(out, m.without(m.Ks[0]).with(m.Ks[0], c))
				}
			}
		} else {
			out = append(out, jArr())
		}
	}
	return out
}

// memberCands: the instances that probe a const/enum keyword. All members first (each must be accepted), then the
// relatives of each member, then the near misses.
func memberCands(ms []*J) []*J {
	out := append([]*J{}, ms...)
	for _, m := range ms {
		if t := m.JSON(); asciiOnly(t) {
			out = append(out, jStr(t))
		}
		if m.T == "s" {
			if v, ok := spelled(m.S); ok {
				out = append(out, v)
			}
		}
	}
	for _, m := range ms {
		out = append(out, nearMisses(m, 0)...)
	}
	return append(out, jStr("nope"), jInt(7))
}

// memberClass: the histogram key of a member list (printed into the evidence).
func memberClass(ms []*J) string {
	kinds := map[string]bool{}
	texts := map[string]bool{}
	collide, repeat, comp := false, false, false
	for _, m := range ms {
		kinds[m.T] = true
		comp = comp || m.composite()
	}
	for _, m := range ms {
		if m.T != "s" {
			texts[m.JSON()] = true
		}
	}
	seen := map[string]bool{}
	for _, m := range ms {
		if m.T == "s" && texts[m.S] {
			collide = true
		}
		if seen[m.String()] {
			repeat = true
		}
		seen[m.String()] = true
	}
	c := "one-kind"
	if len(kinds) > 1 {
		c = "mixed-kinds"
	}
	if comp {
		c += "+composite"
	}
	if collide {
		c += "+string-spells-member"
	}
	if repeat {
		c += "+repeat"
	}
	return c
}

// memberTypes: the JSON Schema type names of the members, in first-occurrence order (integral numbers as "integer" when
// asked for and every number member is integral).
func memberTypes(ms []*J, preferInteger bool) []string {
	allIntegral := true
	for _, m := range ms {
		if m.T == "q" && m.Q%4 != 0 {
			allIntegral = false
		}
	}
	seen := map[string]bool{}
	var out []string
	for _, m := range ms {
		t := map[string]string{"n": "null", "b": "boolean", "q": "number", "s": "string", "a": "array", "o": "object"}[m.T]
		if t == "number" && preferInteger && allIntegral {
			t = "integer"
		}
		if !seen[t] {
			seen[t] = true
			out = append(out, t)
		}
	}
	return out
}
