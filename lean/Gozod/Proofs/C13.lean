/-
  C13 — gozodgen output compiles and validates exactly like the reflection-built schema.

  Part A (all parameter strings): the generator's literal formatting.
  Part B (finite, over the regenerated tables): for every cell of the rule matrix, from its INPUT (field type × rules):
  `GenSem.emitCell` (= `GenEmit.emitChain .head`, the transcription of the writer of /repo HEAD) renders to exactly the
  text found in the generated file (`c13_gen_is_emit`), the file type-checks (`c13_typechecks`, status decided by
  `go build` in the tie), and the meaning of that chain (`GenSem.denoteChain`, partial) is FromStruct's verdict
  (`Gen.tagTable`) on every probe, outside classes defined on the input (`c13_equiv_partial`).
-/
import Gozod.Model.GenSem
import Gozod.Model.TagsKnown
import Gozod.Gen.TagTable
import Gozod.Gen.GenTable
set_option linter.unusedSimpArgs false

namespace Gozod.C13
open Gozod.Tags Gozod.GenChain Gozod.Gen Gozod.GenSem Gozod.GenEmit

/-! ## Part A — literals -/

def Plain (p : Str) : Prop := ∀ c ∈ p, c ≠ cDQ ∧ c ≠ cBS ∧ c ≠ cNL

theorem goStringTail_plain (p : Str) (h : Plain p) : goStringTail (p ++ [cDQ]) = some p := by
  induction p with
  | nil => simp [goStringTail]
  | cons c p ih =>
    have hc := h c (by simp)
    have hp : Plain p := fun d hd => h d (by simp [hd])
    have ih := ih hp
    cases hq : p ++ [cDQ] with
    | nil => simp at hq
    | cons d rest =>
      rw [hq] at ih
      show goStringTail (c :: (p ++ [cDQ])) = some (c :: p)
      rw [hq]
      simp [goStringTail, hc.1, hc.2.1, hc.2.2, ih]

/-! ### LEGACY witnesses: the formatting before 8c56087 (`emitDefault`, `"%s"`). Nothing executes `emitDefault`; these
    three statements are kept only to record what was wrong (they are not in THEOREMS of vlib/c13.py). -/

/-- legacy full statement: the text emitted for a `default=` parameter is a Go string literal denoting the parameter -/
def legacy_quote_full : Prop := ∀ p : Str, goStringLit (emitDefault p) = some p

theorem legacy_quote_partial (p : Str) (h : Plain p) : goStringLit (emitDefault p) = some p := by
  simp [emitDefault, goStringLit, goStringTail_plain p h]

/-- `default=he"llo` was emitted as `.Default("he"llo")` -/
theorem legacy_quote_full_false : ¬ legacy_quote_full := by
  intro h
  have := h [0x68, 0x65, cDQ, 0x6C, 0x6C, 0x6F]
  revert this; decide

theorem legacy_quote_backslash_witness : goStringLit (emitDefault [0x61, cBS, 0x62]) = some [0x61, 0x08] := by decide

example : Plain [0x68, 0x65, 0x6C, 0x6C, 0x6F] := by
  intro c hc
  simp at hc
  rcases hc with rfl | rfl | rfl | rfl | rfl <;> decide

theorem quoteRune_spec (c : Nat) (a : Str) (h : quoteRune c = some a) (tail v : Str)
    (ht : goStringTail (tail ++ [cDQ]) = some v) : goStringTail (a ++ (tail ++ [cDQ])) = some (c :: v) := by
  unfold quoteRune at h
  by_cases h1 : c = cDQ
  · subst h1; simp at h; subst h; have ht2 := ht; simp only [cDQ] at ht2; simp [goStringTail, escapeValue, ht2, cDQ, cBS, cNL]
  by_cases h2 : c = cBS
  · subst h2; simp [h1] at h; subst h; have ht2 := ht; simp only [cDQ] at ht2; simp [goStringTail, escapeValue, ht2, cDQ, cBS, cNL]
  by_cases h3 : c = 0x07
  · subst h3; simp [cDQ, cBS] at h; subst h; have ht2 := ht; simp only [cDQ] at ht2; simp [goStringTail, escapeValue, ht2, cDQ, cBS, cNL]
  by_cases h4 : c = 0x08
  · subst h4; simp [cDQ, cBS] at h; subst h; have ht2 := ht; simp only [cDQ] at ht2; simp [goStringTail, escapeValue, ht2, cDQ, cBS, cNL]
  by_cases h5 : c = 0x0C
  · subst h5; simp [cDQ, cBS] at h; subst h; have ht2 := ht; simp only [cDQ] at ht2; simp [goStringTail, escapeValue, ht2, cDQ, cBS, cNL]
  by_cases h6 : c = 0x0A
  · subst h6; simp [cDQ, cBS] at h; subst h; have ht2 := ht; simp only [cDQ] at ht2; simp [goStringTail, escapeValue, ht2, cDQ, cBS, cNL]
  by_cases h7 : c = 0x0D
  · subst h7; simp [cDQ, cBS] at h; subst h; have ht2 := ht; simp only [cDQ] at ht2; simp [goStringTail, escapeValue, ht2, cDQ, cBS, cNL]
  by_cases h8 : c = 0x09
  · subst h8; simp [cDQ, cBS] at h; subst h; have ht2 := ht; simp only [cDQ] at ht2; simp [goStringTail, escapeValue, ht2, cDQ, cBS, cNL]
  by_cases h9 : c = 0x0B
  · subst h9; simp [cDQ, cBS] at h; subst h; have ht2 := ht; simp only [cDQ] at ht2; simp [goStringTail, escapeValue, ht2, cDQ, cBS, cNL]
  simp [h1, h2, h3, h4, h5, h6, h7, h8, h9] at h
  obtain ⟨hr, ha⟩ := h
  subst ha
  cases hq : tail ++ [cDQ] with
  | nil => simp at hq
  | cons d rest =>
    rw [hq] at ht
    simp [goStringTail, h1, h2, h6, ht, cNL] 

theorem quoteBody_spec (p b : Str) (h : quoteBody p = some b) : goStringTail (b ++ [cDQ]) = some p := by
  induction p generalizing b with
  | nil => simp [quoteBody] at h; subst h; simp [goStringTail]
  | cons c p ih =>
    simp only [quoteBody] at h
    cases ha : quoteRune c with
    | none => simp [ha] at h
    | some a =>
      cases hb : quoteBody p with
      | none => simp [ha, hb] at h
      | some b' =>
        simp [ha, hb] at h
        subst h
        rw [List.append_assoc]
        exact quoteRune_spec c a ha b' p (ih b' hb)

/-- **After the fix** every modelled parameter is emitted as a Go string literal denoting it. -/
theorem c13_quote_fixed (p e : Str) (h : emitDefaultFixed p = some e) : goStringLit e = some p := by
  unfold emitDefaultFixed at h
  cases hb : quoteBody p with
  | none => simp [hb] at h
  | some b =>
    simp [hb] at h
    subst h
    simp [goStringLit, quoteBody_spec p b hb]

example : emitDefaultFixed [0x68, 0x65, cDQ, 0x6C, cBS, 0x0A] = some [cDQ, 0x68, 0x65, cBS, cDQ, 0x6C, cBS, cBS, cBS, 0x6E, cDQ] := by decide

/-- the two `ReplaceAll` passes of the regex path amount to escaping `\` and `"` rune by rune -/
def escChar (c : Nat) : Str := if c = cBS then [cBS, cBS] else if c = cDQ then [cBS, cDQ] else [c]

theorem repl_eq (p : Str) : replQuote (replBackslash p) = p.flatMap escChar := by
  induction p with
  | nil => rfl
  | cons c p ih =>
    by_cases h1 : c = cBS
    · subst h1
      have : cBS ≠ cDQ := by decide
      simp [replBackslash, replQuote, escChar, this, ih]
    · by_cases h2 : c = cDQ
      · subst h2; simp [replBackslash, replQuote, escChar, h1, ih]
      · simp [replBackslash, replQuote, escChar, h1, h2, ih]

theorem goStringTail_esc (p : Str) (h : cNL ∉ p) : goStringTail (p.flatMap escChar ++ [cDQ]) = some p := by
  induction p with
  | nil => simp [goStringTail]
  | cons c p ih =>
    have hc : c ≠ cNL := fun e => h (by simp [e])
    have ih := ih (fun hm => h (by simp [hm]))
    by_cases h1 : c = cBS
    · subst h1
      simp only [List.flatMap_cons, escChar, if_true, List.cons_append, List.nil_append]
      have e1 : (cBS = cDQ) = False := by decide
      have e2 : (cBS = cNL) = False := by decide
      have e3 : escapeValue cBS = some cBS := by decide
      simp [goStringTail, e1, e2, e3, ih]
    · by_cases h2 : c = cDQ
      · subst h2
        have e0 : (cDQ = cBS) = False := by decide
        have e3 : escapeValue cDQ = some cDQ := by decide
        have e4 : (cBS = cDQ) = False := by decide
        have e5 : (cBS = cNL) = False := by decide
        simp [escChar, e0, goStringTail, e3, e4, e5, ih]
      · simp only [List.flatMap_cons, escChar, h1, h2, if_false, List.cons_append, List.nil_append]
        cases hq : List.flatMap escChar p ++ [cDQ] with
        | nil => simp at hq
        | cons d rest =>
          rw [hq] at ih
          simp [goStringTail, h1, h2, hc, ih]

/-- **The regex escaping is right**: for every pattern without a newline the emitted text is a Go
    string literal whose value is the pattern. -/
theorem c13_regex_quote (p : Str) (h : cNL ∉ p) : goStringLit (emitRegex p) = some p := by
  simp [emitRegex, goStringLit, repl_eq, goStringTail_esc p h]

/-! ## Part B — from the input of every matrix cell: emitted text, compile status, meaning = FromStruct -/

/-- FromStruct's verdict rows of a block in matrix order (singles, then each pair in both orders) -/
def refRows (b : Block) : List (List TRule × List Bool) :=
  b.singles.map (fun s => ([s.1], s.2)) ++
  b.pairs.flatMap (fun p => [([p.1, p.2.1], p.2.2.1), ([p.2.1, p.1], p.2.2.2)])

def zipTables : List (Block × GenBlock) := tagTable.zip genTable

/-- a block's cells: FromStruct's row (rules, verdict per probe) beside what gozodgen wrote for the same rules -/
def rowsOf (x : Block × GenBlock) : List ((List TRule × List Bool) × GenCell) := (refRows x.1).zip x.2.cells

def alignedBlock (x : Block × GenBlock) : Bool :=
  decide (x.1.fty = x.2.fty) && decide ((refRows x.1).map (·.1) = x.2.cells.map (·.rules))

/-- both regenerated tables list the same cells in the same order -/
theorem c13_tables_aligned : tagTable.length = genTable.length ∧ zipTables.all alignedBlock = true := by
  constructor <;> decide +kernel

/-- **The text in every generated file is what the transcription of the writer emits** for the cell's field type and
    rules: `emitChain .head` is connected to the real writer on all 2 036 cells by proof (and on every other generated
    program of the run by the `texpr` / `wexpr` ops). -/
theorem c13_gen_is_emit :
    ∀ b ∈ genTable, ∀ c ∈ b.cells, c.expr ≠ [] → (emitCell b.fty c.rules).map Chain.render = some c.expr := by
  have h : genTable.all (fun b => b.cells.all fun c => c.expr.isEmpty || decide ((emitCell b.fty c.rules).map Chain.render = some c.expr)) = true := by
    decide +kernel
  intro b hb c hc hne
  have := List.all_eq_true.mp (List.all_eq_true.mp h b hb) c hc
  cases he : c.expr with
  | nil => exact absurd he hne
  | cons _ _ => simpa [he] using this

/-- **Every generated file of the matrix parses and type-checks** (FULL statement over the matrix; status decided by
    go/parser and `go build` in the tie; the judgement of the model on the same cells: `c13_matrix_welltyped`). -/
theorem c13_typechecks : ∀ b ∈ genTable, ∀ c ∈ b.cells, c.status = .ok := by
  have h : genTable.all (fun b => b.cells.all fun c => c.status == .ok) = true := by decide +kernel
  intro b hb c hc
  simpa using List.all_eq_true.mp (List.all_eq_true.mp h b hb) c hc

/-! ### the excluded classes — defined on the INPUT of a cell (field type × rules), never on what was emitted -/

/-- the cell is a C06 finding: FromStruct itself departs from the documented rule (tracked there) -/
def refKnown (t : FTy) (rules : List TRule) : Bool :=
  rules.any (fun r => knownSingle r t) ||
  (match rules with | [r₁, r₂] => knownPair r₁ r₂ t || knownPair r₂ r₁ t | _ => false)

/-- `uuid` AND `url` on a string field: the first picks the constructor, the other format is left out (b4218fe);
    FromStruct enforces both (df49b33) — open: gen-drops:second-format -/
def secondFormat (t : FTy) (rules : List TRule) : Bool :=
  decide (t.base = .string) && rules.contains .url && rules.contains .uuid

/-- `min=` beyond int64 on uint / uint64: no call is written (cf94592: the bound methods take an int64); FromStruct applies
    the bound as a uint64 (9a4a316) — open: gen-drops:bound-beyond-int64 -/
def boundBeyondInt64 (t : FTy) (rules : List TRule) : Bool :=
  (decide (t.base = .uint) || decide (t.base = .uint64)) &&
  rules.any fun r => match r with | .min n => decide (2 ^ 63 - 1 < n) | _ => false

def equivExcluded (t : FTy) (rules : List TRule) : Bool := refKnown t rules || secondFormat t rules || boundBeyondInt64 t rules

/-- the cell's chain — from its input — is judged on every probe and gives FromStruct's verdicts -/
def cellEquiv (t : FTy) (probes : List Probe) (ref : List Bool) (rules : List TRule) : Bool :=
  match emitCell t rules with
  | some ch => decide (probes.map (denoteChain ch) = ref.map some)
  | none => false

def equivOKBlock (x : Block × GenBlock) : Bool :=
  (rowsOf x).all fun rc => rc.2.status != .ok || equivExcluded x.1.fty rc.2.rules || cellEquiv x.1.fty x.1.probes rc.1.2 rc.2.rules

/-- Full statement: every generated schema that compiles gives FromStruct's verdict on every probe. -/
def c13_equiv_full : Prop :=
  ∀ x ∈ zipTables, ∀ rc ∈ rowsOf x, rc.2.status = .ok →
    ∃ ch, emitCell x.1.fty rc.2.rules = some ch ∧ x.1.probes.map (denoteChain ch) = rc.1.2.map some

/-- **Equivalence**: for every cell of the matrix whose file type-checks and whose INPUT is outside the three listed
    classes, the writer emits a chain, that chain is judged by `denoteChain` on every probe (no unknown call, constructor
    or argument), and the verdicts are FromStruct's. A rule the writer newly drops, or a call the semantics does not know,
    makes this FAIL — the cell cannot leave the theorem's scope by what was emitted for it. -/
theorem c13_equiv_partial :
    ∀ x ∈ zipTables, ∀ rc ∈ rowsOf x, rc.2.status = .ok → equivExcluded x.1.fty rc.2.rules = false →
      ∃ ch, emitCell x.1.fty rc.2.rules = some ch ∧ x.1.probes.map (denoteChain ch) = rc.1.2.map some := by
  have h : zipTables.all equivOKBlock = true := by decide +kernel
  intro x hx rc hrc hs hk
  have := List.all_eq_true.mp (List.all_eq_true.mp h x hx) rc hrc
  simp only [hs, hk, bne_self_eq_false, Bool.false_or, cellEquiv] at this
  cases he : emitCell x.1.fty rc.2.rules with
  | none => simp [he] at this
  | some ch => exact ⟨ch, rfl, by simpa [he] using this⟩

/-- the region is inhabited: plain, paired, pointer, slice and nested-struct cells -/
example : ∃ x ∈ zipTables, ∃ rc ∈ rowsOf x, rc.2.status = .ok ∧ equivExcluded x.1.fty rc.2.rules = false ∧ rc.2.rules = [.min 3] := by
  decide +kernel
example : (zipTables.map fun x => ((rowsOf x).filter fun rc => rc.2.status == .ok && !equivExcluded x.1.fty rc.2.rules).length).sum ≥ 2000 := by
  decide +kernel

end Gozod.C13
