package main

// C12 — ToJSONSchema is a pure, deterministic function of the schema.
//
// Histories over families of schemas related by derivation: real chaining calls (every exported method that
// returns a schema, by reflection), ToJSONSchema calls with every option setting, and Parse calls, in the orders
// the property names: child then parent, two siblings, twice, after N conversions of other schemas.  Nothing is
// converted implicitly.  For every conversion the oracle document is the one an isolated twin gives (the same
// derivation replayed on a fresh base, nothing converted before); after every step all live schemas are
// re-snapshotted (exported internals: checks, Bag content, Values, flags, registry entry) and re-parsed on the probe
// set.  "document equals the isolated one and nothing live changed" is evaluated on the implementation alone; the
// Lean store model must predict the same verdicts, and that the converted schema's Bag is not rewritten.

import (
	"encoding/json"
	"fmt"
	"math"
	"os"
	"path/filepath"
	"runtime/debug"
	"runtime/pprof"
	"sort"
	"sync"
	"time"

	"verifharness/hx"
	"verifharness/storex"
)

func main() {
	if target := os.Getenv("C12_GEN"); target != "" {
		repo := os.Getenv("VERIF_REPO")
		if repo == "" {
			repo = "/repo"
		}
		if err := genAccess(repo, target); err != nil {
			fmt.Fprintln(os.Stderr, "translator error:", err)
			os.Exit(3)
		}
		return
	}
	if target := os.Getenv("C12_GEN_ALSO"); target != "" { // translator first, then the histories (one build, one process)
		repo := os.Getenv("VERIF_REPO")
		if repo == "" {
			repo = "/repo"
		}
		if err := genAccess(repo, target); err != nil {
			fmt.Fprintln(os.Stderr, "translator error:", err)
			os.Exit(3)
		}
	}
	if err := run(hx.ParseFlags()); err != nil {
		fmt.Fprintln(os.Stderr, "harness error:", err)
		os.Exit(3)
	}
}

func emit(h *storex.Hist, o *hx.Out, tag string) {
	if len(h.Steps) == 0 {
		return
	}
	op, impl := h.OpLine("c12", tag)
	o.Emit(op, impl)
	h.FlushProbeStats(o)
}

func run(c hx.Config) error {
	started := time.Now()
	debug.SetGCPercent(400) // the histories allocate short-lived parse results and error lists almost exclusively
	if pf := os.Getenv("C12_PROF"); pf != "" {
		f, _ := os.Create(pf)
		pprof.StartCPUProfile(f)
		defer pprof.StopCPUProfile()
	}
	storex.CheckCatalogue() // built once, before any concurrency
	// every schema type (storex.Bases) and the schema kinds whose DEFINITION holds reference-typed data handed out by
	// accessors, with adversarial members (storex.DefBases: repeats, nested slices, maps, shared member instances)
	bases := append(storex.Bases(), storex.DefBases()...)
	nPlain := len(bases)
	// schemas whose GlobalRegistry entry carries examples (H9 only: in-place rewriting of documents)
	bases = append(bases, storex.MetaExampleBases()...)
	// The families of different bases share nothing but the library's globals; they are run by a few workers, each base
	// with its own random stream (seed, base index) and its own output part; the parts are joined in base order, so
	// the case stream is a function of the seed and the tier only.
	workers := 4
	if n := os.Getenv("C12_WORKERS"); n != "" {
		fmt.Sscan(n, &workers)
	}
	parts := make([]string, len(bases))
	errs := make([]error, len(bases))
	jobs := make(chan int)
	var wg sync.WaitGroup
	for w := 0; w < workers; w++ {
		wg.Add(1)
		go func() {
			defer wg.Done()
			for k := range jobs {
				parts[k] = filepath.Join(c.OutDir, fmt.Sprintf("part-%03d", k))
				o, err := hx.NewOut(parts[k])
				if err != nil {
					errs[k] = err
					continue
				}
				if k < nPlain {
					runBase(c, bases[k], hx.NewRng(c.Seed*1000003+uint64(k)+1), o)
				}
				runInplace(c, bases[k], k >= nPlain, hx.NewRng(c.Seed*7000003+uint64(k)+1), o)
				errs[k] = o.Close(nil)
			}
		}()
	}
	for k := range bases {
		jobs <- k
	}
	close(jobs)
	wg.Wait()
	for _, e := range errs {
		if e != nil {
			return e
		}
	}
	return merge(c.OutDir, parts, map[string]any{"bases": len(bases), "def_bases": len(storex.DefBases()), "option_sets": storex.NOptionsPure() + 2, "registry_variants": storex.NRegistryVariants(),
		"check_catalogue": len(storex.CheckCatalogue()), "check_catalogue_static": storex.NStaticChecks(),
		"harness_s": math.Round(time.Since(started).Seconds()*10) / 10})
}

// merge joins the per-base parts (ops.txt, impl.txt, stats.json) in order and removes them.
func merge(dir string, parts []string, extra map[string]any) error {
	fo, err := os.Create(filepath.Join(dir, "ops.txt"))
	if err != nil {
		return err
	}
	defer fo.Close()
	fi, err := os.Create(filepath.Join(dir, "impl.txt"))
	if err != nil {
		return err
	}
	defer fi.Close()
	hist := map[string]int{}
	var samples []any
	cases := 0
	for _, p := range parts {
		for name, w := range map[string]*os.File{"ops.txt": fo, "impl.txt": fi} {
			b, err := os.ReadFile(filepath.Join(p, name))
			if err != nil {
				return err
			}
			if _, err := w.Write(b); err != nil {
				return err
			}
		}
		var st struct {
			Cases     int            `json:"cases"`
			Histogram map[string]int `json:"histogram"`
			Samples   []any          `json:"samples"`
		}
		b, err := os.ReadFile(filepath.Join(p, "stats.json"))
		if err != nil {
			return err
		}
		if err := json.Unmarshal(b, &st); err != nil {
			return err
		}
		cases += st.Cases
		for k, v := range st.Histogram {
			hist[k] += v
		}
		if len(samples) < 12 && len(st.Samples) > 0 {
			samples = append(samples, st.Samples[0])
		}
		os.RemoveAll(p)
	}
	st := map[string]any{"cases": cases, "histogram": hist, "samples": samples}
	for k, v := range extra {
		st[k] = v
	}
	b, _ := json.MarshalIndent(st, "", " ")
	return os.WriteFile(filepath.Join(dir, "stats.json"), b, 0o644)
}

// runBase runs every history class over one base.
func runBase(c hx.Config, b storex.Base, rng *hx.Rng, o *hx.Out) {
	nopt := storex.NOptionsPure() // every option set but the two that rewrite documents in place (runInplace)
	nfixed := len(storex.OptionSets())
	cat := storex.CheckCatalogue()
	nstatic := storex.NStaticChecks()
	reps := 1
	if c.Thorough() {
		reps = 4
	}
	{
		methods := storex.Methods(b.Mk())
		sort.Strings(methods)
		for rep := 0; rep < reps; rep++ {
			for _, m := range methods {
				// H1: child, then parent (and again)
				h := storex.NewHistDef(b)
				if h.Step(0, m, rep, o) {
					h.ConvR(1, 0, o)
					h.ConvR(0, 0, o)
					h.ParseStep(0, o)
					h.ConvR(1, rng.Intn(nopt), o)
					h.ConvR(0, rng.Intn(nopt), o)
					h.ConvR(1, 0, o)
					emit(h, o, "H1")
				}
				// H5: registries. The child (and a composite holding it, when the type has one) is converted under a
				// private registry that gives it an ID, then everything again with default options, then under a
				// registry that names every schema, then with default options again.
				h = storex.NewHistDef(b)
				if h.Step(0, m, rep, o) {
					for _, w := range []string{"Or", "And", "Optional", "Array", "Slice"} {
						if h.Step(1, w, 0, o) {
							break
						}
					}
					n := len(h.Live)
					h.ConvR(1, 0, o)
					for j := 0; j < n; j++ {
						h.ConvR(j, nfixed, o)
					}
					for j := 0; j < n; j++ {
						h.ConvR(j, 0, o)
					}
					for j := n - 1; j >= 0; j-- {
						h.ConvR(j, nfixed+1, o)
					}
					h.ConvR(n-1, nfixed+2, o)
					for j := 0; j < n; j++ {
						h.ConvR(j, rng.Intn(nfixed), o)
					}
					emit(h, o, "H5")
				}
				// H2: two siblings
				h = storex.NewHistDef(b)
				if h.Step(0, m, rep, o) && h.Step(0, hx.Pick(rng, methods), rng.Intn(3), o) {
					h.ConvR(1, 0, o)
					h.ConvR(2, 0, o)
					h.ConvR(1, 0, o)
					h.ParseStep(1, o)
					h.ParseStep(0, o)
					h.ConvR(0, 0, o)
					h.Step(0, m, rep, o) // a sibling derived after the conversions
					h.ConvR(len(h.Live)-1, 0, o)
					emit(h, o, "H2")
				}
			}
			// H6: check VALUES from the catalogue (storex/checks.go: the exported Describe/Meta factories with GlobalMeta
			// variants of every JSON kind, user-defined checks, every check the public methods build) attached through
			// every method that takes a core.ZodCheck; the result converted three times, then the parent, a composite
			// holding the result three times, a sibling carrying the next catalogue entry, everything once more.
			for _, cm := range storex.CheckMethods(b.Mk()) {
				for ci := range cat {
					if ci >= nstatic && !c.Thorough() && rng.Intn(len(cat)-nstatic) >= 40 {
						continue
					}
					h := storex.NewHistDef(b)
					if !h.Step(0, cm, storex.CheckVariantBase+ci, o) {
						continue
					}
					h.ConvR(1, 0, o)
					h.ConvR(1, 0, o)
					h.ConvR(1, rng.Intn(nopt), o)
					h.ConvR(0, 0, o)
					for _, w := range []string{"Or", "Optional", "Array", "Slice", "And"} {
						if h.Step(1, w, 0, o) {
							break
						}
					}
					n := len(h.Live)
					for k := 0; k < 3; k++ {
						h.ConvR(n-1, []int{0, rng.Intn(nopt), 0}[k], o)
					}
					h.Step(0, cm, storex.CheckVariantBase+(ci+1)%len(cat), o)
					h.Step(1, cm, storex.CheckVariantBase+rng.Intn(nstatic), o) // a second check on top of the first
					for j := 0; j < len(h.Live); j++ {
						h.ConvR(j, 0, o)
					}
					h.ParseStep(1, o)
					for j := len(h.Live) - 1; j >= 0; j-- {
						h.ConvR(j, rng.Intn(nopt), o)
					}
					emit(h, o, "H6")
				}
			}
			// H7: the same catalogue attached with the exported Internals().AddCheck to a freshly constructed schema of
			// this type (every type takes checks this way); converted three times, a child derived by a random method
			// and converted twice, the base again, a sibling, everything once more.
			if rep == 0 {
				for ci := range cat {
					if lim := map[bool]int{false: 6, true: 60}[c.Thorough()]; ci >= nstatic && rng.Intn(len(cat)-nstatic) >= lim {
						continue
					}
					h := storex.NewHistDef(storex.WithAddedCheck(b, storex.CheckVariantBase+ci))
					h.ConvR(0, 0, o)
					h.ConvR(0, rng.Intn(nopt), o)
					h.ConvR(0, 0, o)
					h.ParseStep(0, o)
					for try := 0; try < 4; try++ {
						if h.Step(0, hx.Pick(rng, methods), rng.Intn(3), o) {
							break
						}
					}
					if len(h.Live) > 1 {
						h.ConvR(1, 0, o)
						h.ConvR(1, rng.Intn(nopt), o)
						h.ConvR(0, 0, o)
						h.Step(0, hx.Pick(rng, methods), rng.Intn(3), o)
					}
					for j := 0; j < len(h.Live); j++ {
						h.ConvR(j, 0, o)
					}
					emit(h, o, "H7")
				}
			}
			// H8: ToJSONSchema(REGISTRY) as a history step: a schema is converted, then a registry that holds the whole family
			// (IDs / titles / IDs+examples x default / reused-ref / io-input+URI), then the schema again, a relative, the
			// registry again, everything once more. Document of the registry against the twin family's registry.
			if rep == 0 {
				for k := 0; k < 2; k++ {
					h := storex.NewHistDef(b)
					for i := 0; i < 1+rng.Intn(3); i++ {
						h.Step(rng.Intn(len(h.Live)), hx.Pick(rng, methods), rng.Intn(3), o)
					}
					n := len(h.Live)
					h.ConvR(n-1, 0, o)
					h.ConvReg(rng.Intn(storex.NRegistryVariants()), o)
					h.ConvR(n-1, 0, o)
					h.ConvR(0, rng.Intn(nopt), o)
					h.ConvReg(rng.Intn(storex.NRegistryVariants()), o)
					h.ParseStep(rng.Intn(n), o)
					h.ConvReg(k*3, o)
					for j := 0; j < n; j++ {
						h.ConvR(j, 0, o)
					}
					emit(h, o, "H8")
				}
			}
			// H3/H4: random family, conversions in random order with random options, each schema at least twice
			for k := 0; k < 6; k++ {
				h := storex.NewHistDef(b)
				for i := 0; i < 2+rng.Intn(4); i++ {
					h.Step(rng.Intn(len(h.Live)), hx.Pick(rng, methods), rng.Intn(3), o)
				}
				n := len(h.Live)
				for i := 0; i < 2*n; i++ {
					j := rng.Intn(n)
					switch rng.Intn(5) {
					case 0:
						h.ParseStep(j, o)
					default:
						h.ConvR(j, rng.Intn(nopt), o)
					}
					if rng.Intn(4) == 0 {
						h.Step(rng.Intn(len(h.Live)), hx.Pick(rng, methods), rng.Intn(3), o)
					}
				}
				for j := 0; j < n; j++ {
					h.ConvR(j, 0, o)
				}
				emit(h, o, "H3")
			}
		}

	}
}

// runInplace — H9: histories in which documents are REWRITTEN IN PLACE: by an Override callback (every list and pointee
// of every node it is handed) or by the caller holding the returned document. The behavioural cross-check of the
// translator's "private" classifications: whatever the document holds by reference is overwritten, and every live
// schema (internals, accessors, definition, registry entry, parse fingerprint) and every later document is compared.
// Every conv step carries the measurement of which registry entries' example lists the document holds (ConvW).
// withExamples: the base's registry entry has examples from the start; otherwise entries with examples come from
// gozod.Meta CHECKS of the catalogue (registered by the first conversion).
func runInplace(c hx.Config, b storex.Base, withExamples bool, rng *hx.Rng, o *hx.Out) {
	methods := storex.Methods(b.Mk())
	sort.Strings(methods)
	nopt := storex.NOptionsPure()
	reps := 1
	if withExamples {
		reps = 6
	}
	if c.Thorough() {
		reps *= 3
	}
	for rep := 0; rep < reps; rep++ {
		bb := b
		if !withExamples {
			// a Meta check of the catalogue that carries examples (static entries 3.. are the Meta variants)
			bb = storex.WithAddedCheck(b, storex.CheckVariantBase+3+3+rng.Intn(8))
		}
		h := storex.NewHistDef(bb)
		if withExamples {
			h.Step(0, "Element", 0, o) // the member that carries the entry joins the live list (entries of members are not tracked otherwise)
		}
		for i := 0; i < 1+rng.Intn(2); i++ {
			for try := 0; try < 4; try++ {
				if h.Step(rng.Intn(len(h.Live)), hx.Pick(rng, methods), rng.Intn(3), o) {
					break
				}
			}
		}
		n := len(h.Live)
		first := storex.OptInplace
		if rep%2 == 1 {
			first = storex.OptMutReturned
		}
		h.ConvW(0, 0, o)
		h.ConvW(n-1, first, o)
		h.ConvW(0, 0, o)
		h.ConvW(n-1, 0, o)
		h.ParseStep(0, o)
		h.ConvW(0, storex.OptInplace+storex.OptMutReturned-first, o)
		h.ConvW(rng.Intn(n), rng.Intn(nopt), o)
		if rng.Intn(2) == 0 {
			h.Step(rng.Intn(n), hx.Pick(rng, methods), rng.Intn(3), o) // a relative derived after the rewriting
		}
		h.ConvW(n-1, storex.OptInplace, o)
		for j := 0; j < len(h.Live); j++ {
			h.ConvW(j, 0, o)
		}
		emit(h, o, "H9")
	}
}
