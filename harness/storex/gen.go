package storex

// Type-directed generator of Go value graphs (C15), with the three things a history check needs:
//
//	GraphGen.Type / Value / Any   random Go types (reflect-built and named) and random values of a given type:
//	                              map / slice / array / struct / pointer / interface nestings, typed and any-typed
//	                              containers, value-typed aggregates (structs, arrays) embedded in containers,
//	                              nil references, spare capacity, shared sub-graphs (DAGs)
//	GraphCells / GraphDigest      contents + addresses of every cell (map, slice backing array up to cap, pointee)
//	                              reachable from a value: "bit-for-bit unchanged" is equality of the digests
//	GraphAddrs                    the addresses of the reference cells reachable from a value (alias checks)
//	MutateDeep                    in-place change of everything a caller can reach from a value it holds
//	EncodeGraph                   the abstract shape of a graph (the Lean model's input): reference nodes with
//	                              labels, value-typed aggregate nodes, scalars
//
// Everything is deterministic from the Rng.

import (
	"fmt"
	"hash/fnv"
	"math"
	"reflect"
	"sort"
	"strings"

	"verifharness/hx"
)

// Tag and Rule are the named struct types of the generator: value-typed aggregates holding references.
type Tag struct {
	K  string   `json:"k"`
	Vs []string `json:"vs"`
}

type Rule struct {
	Name  string         `json:"name"`
	Hosts []string       `json:"hosts"`
	Meta  map[string]any `json:"meta"`
	Tags  []Tag          `json:"tags"`
	Pair  [2][]int       `json:"pair"`
	Next  *Rule          `json:"next"`
	N     *int           `json:"n"`
	ByKey map[string]Tag `json:"by_key"`
}

// Flat is an aggregate without references (copying it by assignment is a full copy).
type Flat struct {
	A string  `json:"a"`
	B int     `json:"b"`
	C [2]bool `json:"c"`
}

// Box holds its containers through pointers: a struct field that is a *map, a *slice, a slice of pointers to structs.
type Box struct {
	M  *map[string]any `json:"m"`
	S  *[]int          `json:"s"`
	Rs []*Rule         `json:"rs"`
	T  *Tag            `json:"t"`
}

var TBox = reflect.TypeOf(Box{})

var (
	TRule = reflect.TypeOf(Rule{})
	TTag  = reflect.TypeOf(Tag{})
	TFlat = reflect.TypeOf(Flat{})
	tStr  = reflect.TypeOf("")
	tInt  = reflect.TypeOf(0)
	tF64  = reflect.TypeOf(0.0)
	tBool = reflect.TypeOf(false)
)

// GraphGen generates types and values.
type GraphGen struct {
	R    *hx.Rng
	pool []reflect.Value // finished any-typed containers of the graph being built (for sharing)
}

func NewGraphGen(r *hx.Rng) *GraphGen { return &GraphGen{R: r} }

// StrPool holds the string scalars; the numeric-looking ones make key schemas canonicalise.
var StrPool = []string{"a", "b", "s", "x", "", "abc", "1", "2", "1.0", "03", "+1", "1e1", "2.50", "-0", "007", "n", "name", "k"}

func (g *GraphGen) scalarType() reflect.Type {
	return hx.Pick(g.R, []reflect.Type{tStr, tStr, tInt, tF64, tBool})
}

// aggType is a value-typed aggregate type (struct or array) that holds references when d > 0.
func (g *GraphGen) aggType(d int) reflect.Type {
	switch g.R.Intn(6) {
	case 0:
		return TRule
	case 1:
		return TTag
	case 2:
		return reflect.ArrayOf(1+g.R.Intn(2), g.refType(d-1))
	case 3:
		return TFlat
	default:
		return g.structType(d)
	}
}

func (g *GraphGen) structType(d int) reflect.Type {
	n := 1 + g.R.Intn(3)
	fs := make([]reflect.StructField, n)
	for i := range fs {
		ft := g.Type(d - 1)
		if i == 0 && d > 0 {
			ft = g.refType(d - 1) // at least one reference inside the aggregate
		}
		fs[i] = reflect.StructField{Name: fmt.Sprintf("F%d", i), Type: ft, Tag: reflect.StructTag(fmt.Sprintf(`json:"f%d"`, i))}
	}
	return reflect.StructOf(fs)
}

// refType is a reference type (slice, map, pointer) or any.
func (g *GraphGen) refType(d int) reflect.Type {
	if d <= 0 {
		return hx.Pick(g.R, []reflect.Type{reflect.SliceOf(tStr), reflect.SliceOf(tInt), reflect.MapOf(tStr, tInt), reflect.PointerTo(tInt), tAny})
	}
	switch g.R.Intn(5) {
	case 0:
		return reflect.SliceOf(g.elemType(d))
	case 1:
		return reflect.MapOf(tStr, g.elemType(d))
	case 2:
		return reflect.MapOf(tInt, g.elemType(d))
	case 3:
		return reflect.PointerTo(g.elemType(d))
	default:
		return tAny
	}
}

// elemType is the element type of a container: value-typed aggregates are frequent.
func (g *GraphGen) elemType(d int) reflect.Type {
	if g.R.Chance(40) {
		return g.aggType(d)
	}
	return g.Type(d - 1)
}

// Type is a random Go type of reference depth ≤ d.
func (g *GraphGen) Type(d int) reflect.Type {
	if d <= 0 {
		if g.R.Chance(25) {
			return tAny
		}
		return g.scalarType()
	}
	switch g.R.Intn(12) {
	case 0:
		return g.scalarType()
	case 1, 2:
		return tAny
	case 3, 4:
		return reflect.SliceOf(g.elemType(d))
	case 5:
		return reflect.ArrayOf(1+g.R.Intn(2), g.Type(d))
	case 6, 7:
		return reflect.MapOf(tStr, g.elemType(d))
	case 8:
		return reflect.MapOf(tInt, g.elemType(d))
	case 9:
		return reflect.PointerTo(g.elemType(d))
	case 10:
		return g.structType(d)
	default:
		return hx.Pick(g.R, []reflect.Type{TRule, reflect.SliceOf(TRule), reflect.MapOf(tStr, TRule), reflect.PointerTo(TRule),
			reflect.ArrayOf(2, reflect.SliceOf(tStr)), reflect.SliceOf(TTag), reflect.MapOf(tStr, reflect.ArrayOf(2, reflect.SliceOf(tInt)))})
	}
}

// FloatLeaves: what a float leaf of a generated value is drawn from. Half ordinary numbers; half the values on which
// "equal" (==) and "the same bits" part ways: NaN is never == itself (quiet, signalling-range and negative payloads: three
// different bit patterns, all != each other AND != themselves), -0 == +0 with different bits, the infinities and the smallest
// denormal for the edges of the format. Anything that decides identity or "unchanged" by == instead of by bits shows on these.
var FloatLeaves = []float64{0, 1, 2.5, -3, 0, 1,
	math.NaN(), math.Float64frombits(0x7ff8000000000123), math.Float64frombits(0xfff8000000000001), math.Float64frombits(0x7ff4000000000000),
	math.Copysign(0, -1), math.Inf(1), math.Inf(-1), math.SmallestNonzeroFloat64}

// Reset forgets the sharing pool (call between graphs).
func (g *GraphGen) Reset() { g.pool = nil }

// Value is a random value of type t; d bounds the number of reference levels still to come.
func (g *GraphGen) Value(t reflect.Type, d int) reflect.Value {
	v := reflect.New(t).Elem()
	switch t.Kind() {
	case reflect.String:
		v.SetString(hx.Pick(g.R, StrPool))
	case reflect.Int, reflect.Int8, reflect.Int16, reflect.Int32, reflect.Int64:
		v.SetInt(int64(g.R.Intn(7)) - 1)
	case reflect.Uint, reflect.Uint8, reflect.Uint16, reflect.Uint32, reflect.Uint64:
		v.SetUint(uint64(g.R.Intn(7)))
	case reflect.Float32, reflect.Float64:
		v.SetFloat(hx.Pick(g.R, FloatLeaves))
	case reflect.Complex64, reflect.Complex128:
		v.SetComplex(complex(hx.Pick(g.R, FloatLeaves), hx.Pick(g.R, FloatLeaves)))
	case reflect.Bool:
		v.SetBool(g.R.Bool())
	case reflect.Interface:
		if t.NumMethod() != 0 || g.R.Chance(8) {
			return v // nil
		}
		if d <= 0 {
			v.Set(g.Value(g.scalarType(), 0))
			return v
		}
		if len(g.pool) > 0 && g.R.Chance(10) {
			v.Set(hx.Pick(g.R, g.pool)) // a sub-graph reachable along two paths
			return v
		}
		var dt reflect.Type
		switch c := g.R.Intn(10); {
		case c < 3:
			dt = reflect.TypeOf(map[string]any{})
		case c < 5:
			dt = reflect.TypeOf([]any{})
		case c < 6:
			dt = g.scalarType()
		default:
			dt = g.Type(d - 1)
			for dt.Kind() == reflect.Interface {
				dt = g.Type(d - 1)
			}
		}
		x := g.Value(dt, d-1)
		if (dt.Kind() == reflect.Map || dt.Kind() == reflect.Slice) && !x.IsNil() {
			g.pool = append(g.pool, x)
		}
		v.Set(x)
	case reflect.Slice:
		if g.R.Chance(8) {
			return v // nil slice
		}
		n := g.R.Intn(4)
		if d <= 0 && isRefish(t.Elem()) {
			n = 0
		}
		c := n
		if g.R.Chance(30) {
			c = n + 2 // spare capacity: an append by the callee would land in the caller's backing array
		}
		v.Set(reflect.MakeSlice(t, n, c))
		for i := 0; i < n; i++ {
			v.Index(i).Set(g.Value(t.Elem(), d-1))
		}
	case reflect.Array:
		for i := 0; i < t.Len(); i++ {
			v.Index(i).Set(g.Value(t.Elem(), d))
		}
	case reflect.Map:
		if g.R.Chance(8) {
			return v // nil map
		}
		v.Set(reflect.MakeMap(t))
		n := g.R.Intn(4)
		if d <= 0 && isRefish(t.Elem()) {
			n = 0
		}
		for i := 0; i < n; i++ {
			k := g.Value(t.Key(), 0)
			if t.Key().Kind() == reflect.Interface {
				k = reflect.New(t.Key()).Elem()
				k.Set(g.Value(hx.Pick(g.R, []reflect.Type{tStr, tStr, tInt}), 0))
			}
			v.SetMapIndex(k, g.Value(t.Elem(), d-1))
		}
	case reflect.Ptr:
		if d <= 0 || g.R.Chance(12) {
			return v
		}
		p := reflect.New(t.Elem())
		p.Elem().Set(g.Value(t.Elem(), d-1))
		v.Set(p)
	case reflect.Struct:
		for i := 0; i < t.NumField(); i++ {
			if v.Field(i).CanSet() {
				v.Field(i).Set(g.Value(t.Field(i).Type, d))
			}
		}
	}
	return v
}

func isRefish(t reflect.Type) bool {
	switch t.Kind() {
	case reflect.Map, reflect.Slice, reflect.Ptr, reflect.Interface, reflect.Struct, reflect.Array:
		return true
	}
	return false
}

// Graph is a random value of a random type with up to d reference levels.
func (g *GraphGen) Graph(d int) (reflect.Type, reflect.Value) {
	g.Reset()
	t := g.Type(d)
	return t, g.Value(t, d)
}

// ---------------------------------------------------------------------------------------------
// cells: contents + addresses

// GCell is one piece of storage reachable from a value: a map, a slice's backing array (up to cap), a pointee,
// or the root value itself.
type GCell struct {
	Path    string
	Type    string
	Addr    uintptr
	Content string
}

type cellWalk struct {
	cells []GCell
	seen  map[string]bool
}

// shallow renders what is stored in one slot: scalars by value, references by address, aggregates inline.
func shallow(b *strings.Builder, v reflect.Value) {
	if !v.IsValid() {
		b.WriteString("nil")
		return
	}
	switch v.Kind() {
	case reflect.Ptr:
		if v.IsNil() {
			b.WriteString("nilptr")
		} else {
			fmt.Fprintf(b, "p%x", v.Pointer())
		}
	case reflect.Map:
		if v.IsNil() {
			b.WriteString("nilmap")
		} else {
			fmt.Fprintf(b, "m%x", v.Pointer())
		}
	case reflect.Slice:
		if v.IsNil() {
			b.WriteString("nilslice")
		} else {
			fmt.Fprintf(b, "s%x/%d/%d", v.Pointer(), v.Len(), v.Cap())
		}
	case reflect.Interface:
		if v.IsNil() {
			b.WriteString("nil")
		} else {
			b.WriteString("i(" + v.Elem().Type().String() + ":")
			shallow(b, v.Elem())
			b.WriteString(")")
		}
	case reflect.Struct:
		b.WriteString("{")
		for i := 0; i < v.NumField(); i++ {
			shallow(b, v.Field(i))
			b.WriteString(",")
		}
		b.WriteString("}")
	case reflect.Array:
		b.WriteString("[")
		for i := 0; i < v.Len(); i++ {
			shallow(b, v.Index(i))
			b.WriteString(",")
		}
		b.WriteString("]")
	default:
		canon(b, v, 0)
	}
}

func (w *cellWalk) visit(path string, v reflect.Value, d int) {
	if !v.IsValid() || d > 60 {
		return
	}
	switch v.Kind() {
	case reflect.Interface:
		if !v.IsNil() {
			w.visit(path, v.Elem(), d+1)
		}
	case reflect.Ptr:
		if v.IsNil() {
			return
		}
		id := fmt.Sprintf("p%x:%s", v.Pointer(), v.Type())
		if w.seen[id] {
			return
		}
		w.seen[id] = true
		var b strings.Builder
		shallow(&b, v.Elem())
		w.cells = append(w.cells, GCell{path + "/*", v.Type().String(), v.Pointer(), b.String()})
		w.visit(path+"/*", v.Elem(), d+1)
	case reflect.Map:
		if v.IsNil() {
			return
		}
		id := fmt.Sprintf("m%x", v.Pointer())
		if w.seen[id] {
			return
		}
		w.seen[id] = true
		type ent struct {
			k string
			v reflect.Value
		}
		var es []ent
		it := v.MapRange()
		for it.Next() {
			var kb strings.Builder
			kb.WriteString(it.Key().Type().String() + ":")
			shallow(&kb, it.Key())
			es = append(es, ent{kb.String(), it.Value()})
		}
		sort.Slice(es, func(i, j int) bool { return es[i].k < es[j].k })
		var b strings.Builder
		fmt.Fprintf(&b, "len=%d;", v.Len())
		for _, e := range es {
			b.WriteString(e.k + "=")
			shallow(&b, e.v)
			b.WriteString(";")
		}
		w.cells = append(w.cells, GCell{path, v.Type().String(), v.Pointer(), b.String()})
		for _, e := range es {
			w.visit(path+"/"+e.k, e.v, d+1)
		}
	case reflect.Slice:
		if v.IsNil() || v.Cap() == 0 {
			return
		}
		id := fmt.Sprintf("s%x/%d:%s", v.Pointer(), v.Cap(), v.Type())
		if w.seen[id] {
			return
		}
		w.seen[id] = true
		full := v.Slice(0, v.Cap())
		var b strings.Builder
		for i := 0; i < full.Len(); i++ {
			shallow(&b, full.Index(i))
			b.WriteString(";")
		}
		w.cells = append(w.cells, GCell{path, v.Type().String(), v.Pointer(), b.String()})
		for i := 0; i < full.Len(); i++ {
			w.visit(fmt.Sprintf("%s/%d", path, i), full.Index(i), d+1)
		}
	case reflect.Struct:
		for i := 0; i < v.NumField(); i++ {
			w.visit(path+"."+v.Type().Field(i).Name, v.Field(i), d+1)
		}
	case reflect.Array:
		for i := 0; i < v.Len(); i++ {
			w.visit(fmt.Sprintf("%s[%d]", path, i), v.Index(i), d+1)
		}
	}
}

// GraphCells lists the root slot and every cell reachable from v.
func GraphCells(v any) []GCell {
	w := &cellWalk{seen: map[string]bool{}}
	rv := reflect.ValueOf(v)
	var b strings.Builder
	shallow(&b, rv)
	tn := "nil"
	if rv.IsValid() {
		tn = rv.Type().String()
	}
	w.cells = append(w.cells, GCell{"$", tn, 0, b.String()})
	w.visit("$", rv, 0)
	return w.cells
}

// GraphDigest is the whole of GraphCells as one string.
func GraphDigest(cs []GCell) string {
	var b strings.Builder
	for _, c := range cs {
		fmt.Fprintf(&b, "%s|%s|%x|%s\n", c.Path, c.Type, c.Addr, c.Content)
	}
	return b.String()
}

// FirstDiff names the first cell that differs between two walks of the same graph ("" when equal).
func FirstDiff(a, b []GCell) string {
	for i := range a {
		if i >= len(b) {
			return a[i].Path + " (" + a[i].Type + ") gone"
		}
		if a[i] != b[i] {
			return fmt.Sprintf("%s (%s): %s -> %s", a[i].Path, a[i].Type, clip(a[i].Content), clip(b[i].Content))
		}
	}
	if len(b) > len(a) {
		return b[len(a)].Path + " (" + b[len(a)].Type + ") new"
	}
	return ""
}

// FirstDiffType is the Go type of the first differing cell.
func FirstDiffType(a, b []GCell) string {
	for i := range a {
		if i >= len(b) || a[i] != b[i] {
			return a[i].Type
		}
	}
	if len(b) > len(a) {
		return b[len(a)].Type
	}
	return ""
}

func clip(s string) string {
	if len(s) > 120 {
		return s[:120] + "…"
	}
	return s
}

// GraphAddrs is the set of addresses of the non-empty reference cells reachable from v.
func GraphAddrs(v any) map[uintptr]string {
	out := map[uintptr]string{}
	for _, c := range GraphCells(v) {
		if c.Addr != 0 {
			out[c.Addr] = c.Path + " " + c.Type
		}
	}
	return out
}

// SharedAddr reports a reference cell reachable from both values ("" if none). Zero-sized pointees and
// zero-capacity slices have no storage of their own and are left out.
func SharedAddr(a, b any) string {
	aa := GraphAddrs(a)
	var hits []string
	for _, c := range GraphCells(b) {
		if c.Addr == 0 {
			continue
		}
		if p, ok := aa[c.Addr]; ok && !zeroSized(c.Type) {
			hits = append(hits, p+" == "+c.Path)
		}
	}
	sort.Strings(hits)
	if len(hits) == 0 {
		return ""
	}
	return hits[0]
}

func zeroSized(typ string) bool {
	return strings.Contains(typ, "struct {}") && !strings.Contains(typ, "map[")
}

// ---------------------------------------------------------------------------------------------
// the caller's in-place mutation of everything it can reach

func scalarKind(k reflect.Kind) bool {
	switch k {
	case reflect.String, reflect.Bool, reflect.Int, reflect.Int8, reflect.Int16, reflect.Int32, reflect.Int64, reflect.Uint,
		reflect.Uint8, reflect.Uint16, reflect.Uint32, reflect.Uint64, reflect.Float32, reflect.Float64:
		return true
	}
	return false
}

// Sentinel is the value the mutator stores into a slot of type t.
func Sentinel(t reflect.Type) reflect.Value {
	v := reflect.New(t).Elem()
	switch t.Kind() {
	case reflect.String:
		v.SetString("MUT")
	case reflect.Bool:
		v.SetBool(true)
	case reflect.Int, reflect.Int8, reflect.Int16, reflect.Int32, reflect.Int64:
		v.SetInt(99)
	case reflect.Uint, reflect.Uint8, reflect.Uint16, reflect.Uint32, reflect.Uint64:
		v.SetUint(99)
	case reflect.Float32, reflect.Float64:
		v.SetFloat(99.5)
	case reflect.Interface:
		if t.NumMethod() == 0 {
			v.Set(reflect.ValueOf("MUT"))
		}
	}
	return v
}

func holdsScalar(v reflect.Value) bool {
	for v.Kind() == reflect.Interface && !v.IsNil() {
		v = v.Elem()
	}
	return scalarKind(v.Kind())
}

// mutatedCopy is a copy of a value-typed slot content whose scalars are replaced (references kept: what they point
// at has been mutated in place already).
func mutatedCopy(v reflect.Value) reflect.Value {
	c := reflect.New(v.Type()).Elem()
	c.Set(v)
	overwriteScalars(c)
	return c
}

func overwriteScalars(c reflect.Value) {
	switch c.Kind() {
	case reflect.Struct:
		for i := 0; i < c.NumField(); i++ {
			if c.Field(i).CanSet() {
				overwriteScalars(c.Field(i))
			}
		}
	case reflect.Array:
		for i := 0; i < c.Len(); i++ {
			overwriteScalars(c.Index(i))
		}
	case reflect.Interface:
		if c.CanSet() && holdsScalar(c) && c.Type().NumMethod() == 0 {
			c.Set(Sentinel(c.Type()))
		} else if c.CanSet() && !c.IsNil() && (c.Elem().Kind() == reflect.Struct || c.Elem().Kind() == reflect.Array) {
			c.Set(mutatedCopy(c.Elem()))
		}
	default:
		if c.CanSet() && scalarKind(c.Kind()) {
			c.Set(Sentinel(c.Type()))
		}
	}
}

// MutateDeep changes, in place, everything reachable from v: every map entry, slice element (up to cap), pointee,
// struct field and array element, at every depth, and adds an entry to every map. Storage that can only be reached
// through a non-addressable copy (a struct stored in a map or boxed in an interface) is reached through the
// references it holds, and the slot holding it is overwritten with a changed copy.
func MutateDeep(v reflect.Value) { mutDeep(v, 0, map[string]bool{}) }

func mutDeep(v reflect.Value, d int, seen map[string]bool) {
	if !v.IsValid() || d > 60 {
		return
	}
	switch v.Kind() {
	case reflect.Interface:
		if v.IsNil() {
			return
		}
		mutDeep(v.Elem(), d+1, seen)
	case reflect.Ptr:
		if v.IsNil() {
			return
		}
		id := fmt.Sprintf("p%x:%s", v.Pointer(), v.Type())
		if seen[id] {
			return
		}
		seen[id] = true
		mutDeep(v.Elem(), d+1, seen)
		overwriteScalars(v.Elem())
	case reflect.Map:
		if v.IsNil() {
			return
		}
		id := fmt.Sprintf("m%x", v.Pointer())
		if seen[id] {
			return
		}
		seen[id] = true
		for _, k := range v.MapKeys() {
			e := v.MapIndex(k)
			mutDeep(e, d+1, seen)
			func() {
				defer func() { _ = recover() }()
				switch {
				case holdsScalar(e):
					v.SetMapIndex(k, Sentinel(e.Type()))
				case e.Kind() == reflect.Struct || e.Kind() == reflect.Array:
					v.SetMapIndex(k, mutatedCopy(e))
				case e.Kind() == reflect.Interface && !e.IsNil() && (e.Elem().Kind() == reflect.Struct || e.Elem().Kind() == reflect.Array):
					nv := reflect.New(e.Type()).Elem()
					nv.Set(mutatedCopy(e.Elem()))
					v.SetMapIndex(k, nv)
				}
			}()
		}
		func() {
			defer func() { _ = recover() }()
			nk := reflect.New(v.Type().Key()).Elem()
			switch nk.Kind() {
			case reflect.String:
				nk.SetString("zzMUT")
			case reflect.Int, reflect.Int64:
				nk.SetInt(987)
			case reflect.Interface:
				nk.Set(reflect.ValueOf("zzMUT"))
			default:
				return
			}
			v.SetMapIndex(nk, Sentinel(v.Type().Elem()))
		}()
	case reflect.Slice:
		if v.IsNil() || v.Cap() == 0 {
			return
		}
		id := fmt.Sprintf("s%x/%d:%s", v.Pointer(), v.Cap(), v.Type())
		if seen[id] {
			return
		}
		seen[id] = true
		full := v.Slice(0, v.Cap())
		for i := 0; i < full.Len(); i++ {
			mutDeep(full.Index(i), d+1, seen)
			overwriteScalars(full.Index(i))
		}
	case reflect.Array:
		for i := 0; i < v.Len(); i++ {
			mutDeep(v.Index(i), d+1, seen)
		}
		if v.CanSet() {
			overwriteScalars(v)
		}
	case reflect.Struct:
		for i := 0; i < v.NumField(); i++ {
			if v.Type().Field(i).PkgPath != "" {
				continue // unexported: out of a caller's reach
			}
			mutDeep(v.Field(i), d+1, seen)
		}
		if v.CanSet() {
			overwriteScalars(v)
		}
	}
}

// MutateResult mutates a value the caller got back from Parse (held in a variable of its own).
func MutateResult(r any) {
	if r == nil {
		return
	}
	hold := reflect.New(reflect.TypeOf(r))
	hold.Elem().Set(reflect.ValueOf(r))
	MutateDeep(hold.Elem())
}

// ---------------------------------------------------------------------------------------------
// the abstract shape of a graph (what the Lean model is given)

// Encoding (tokens, prefix form):
//
//	S n            scalar with content id n
//	Z              nil reference / nil interface
//	R l k (key V)*k   reference node (map, slice, pointee) first met here: label l (1,2,…), k entries
//	B l            a reference node met before (sharing)
//	A k (key V)*k  value-typed aggregate (struct, array): k fields, stored inside the slot that holds it
//
// Keys: slice index, struct field index, 0 for a pointee, a content id for a map key (entries sorted by key text).
type encoder struct {
	b      []string
	labels map[string]int
	Depth  int // deepest nesting (reference and aggregate levels)
	Aggs   int // aggregates that hold references and sit inside a reference cell
	Refs   int
}

func id3(s string) int {
	h := fnv.New32a()
	h.Write([]byte(s))
	return int(h.Sum32() % 997)
}

func (e *encoder) enc(v reflect.Value, d int, inRef bool) {
	if d > e.Depth {
		e.Depth = d
	}
	if !v.IsValid() {
		e.b = append(e.b, "Z")
		return
	}
	switch v.Kind() {
	case reflect.Interface:
		if v.IsNil() {
			e.b = append(e.b, "Z")
			return
		}
		e.enc(v.Elem(), d, inRef)
	case reflect.Ptr:
		if v.IsNil() {
			e.b = append(e.b, "Z")
			return
		}
		if e.ref(fmt.Sprintf("p%x:%s", v.Pointer(), v.Type())) {
			e.b = append(e.b, "1", "0")
			e.enc(v.Elem(), d+1, true)
		}
	case reflect.Map:
		if v.IsNil() {
			e.b = append(e.b, "Z")
			return
		}
		if e.ref(fmt.Sprintf("m%x", v.Pointer())) {
			type ent struct {
				k string
				v reflect.Value
			}
			var es []ent
			it := v.MapRange()
			for it.Next() {
				var kb strings.Builder
				canon(&kb, it.Key(), 0)
				es = append(es, ent{kb.String(), it.Value()})
			}
			sort.Slice(es, func(i, j int) bool { return es[i].k < es[j].k })
			e.b = append(e.b, fmt.Sprint(len(es)))
			for _, x := range es {
				e.b = append(e.b, fmt.Sprint(id3(x.k)))
				e.enc(x.v, d+1, true)
			}
		}
	case reflect.Slice:
		if v.IsNil() {
			e.b = append(e.b, "Z")
			return
		}
		key := fmt.Sprintf("s%x/%d/%d:%s", v.Pointer(), v.Len(), v.Cap(), v.Type())
		if v.Cap() == 0 {
			key = fmt.Sprintf("empty%d", len(e.labels)) // no storage: every empty slice is its own node
		}
		if e.ref(key) {
			e.b = append(e.b, fmt.Sprint(v.Len()))
			for i := 0; i < v.Len(); i++ {
				e.b = append(e.b, fmt.Sprint(i))
				e.enc(v.Index(i), d+1, true)
			}
		}
	case reflect.Struct, reflect.Array:
		n := 0
		if v.Kind() == reflect.Struct {
			n = v.NumField()
		} else {
			n = v.Len()
		}
		mark := len(e.b)
		refsBefore := e.Refs
		e.b = append(e.b, "A", fmt.Sprint(n))
		for i := 0; i < n; i++ {
			e.b = append(e.b, fmt.Sprint(i))
			if v.Kind() == reflect.Struct {
				e.enc(v.Field(i), d+1, inRef)
			} else {
				e.enc(v.Index(i), d+1, inRef)
			}
		}
		_ = mark
		if inRef && e.Refs > refsBefore {
			e.Aggs++
		}
	default:
		var sb strings.Builder
		canon(&sb, v, 0)
		e.b = append(e.b, "S", fmt.Sprint(id3(sb.String())))
	}
}

// ref emits the head of a reference node; false if the node was emitted before (a back reference is written).
func (e *encoder) ref(key string) bool {
	if l, ok := e.labels[key]; ok {
		e.b = append(e.b, "B", fmt.Sprint(l))
		return false
	}
	l := len(e.labels) + 1
	e.labels[key] = l
	e.Refs++
	e.b = append(e.b, "R", fmt.Sprint(l))
	return true
}

// GraphShape is the encoding of v and what it contains.
type GraphShape struct {
	Tokens string
	Depth  int
	Refs   int
	Aggs   int
}

func EncodeGraph(v any) GraphShape {
	e := &encoder{labels: map[string]int{}}
	e.enc(reflect.ValueOf(v), 0, false)
	return GraphShape{strings.Join(e.b, " "), e.Depth, e.Refs, e.Aggs}
}

// SerHash is the digest of the tree unfolding of a graph (no addresses), the same function as the Lean model's
// `serHash ∘ ser`: scalar n ↦ [0,n]; nil ↦ [4]; reference node ↦ [1] (key :: child)* [3]; aggregate ↦ [5] (key :: child)* [6].
func SerHash(v any) uint64 {
	var out []int
	var ser func(v reflect.Value, d int)
	ser = func(v reflect.Value, d int) {
		if !v.IsValid() {
			out = append(out, 4)
			return
		}
		switch v.Kind() {
		case reflect.Interface:
			if v.IsNil() {
				out = append(out, 4)
				return
			}
			ser(v.Elem(), d)
		case reflect.Ptr:
			if v.IsNil() {
				out = append(out, 4)
				return
			}
			out = append(out, 1, 0)
			ser(v.Elem(), d+1)
			out = append(out, 3)
		case reflect.Map:
			if v.IsNil() {
				out = append(out, 4)
				return
			}
			type ent struct {
				k string
				v reflect.Value
			}
			var es []ent
			it := v.MapRange()
			for it.Next() {
				var kb strings.Builder
				canon(&kb, it.Key(), 0)
				es = append(es, ent{kb.String(), it.Value()})
			}
			sort.Slice(es, func(i, j int) bool { return es[i].k < es[j].k })
			out = append(out, 1)
			for _, x := range es {
				out = append(out, id3(x.k))
				ser(x.v, d+1)
			}
			out = append(out, 3)
		case reflect.Slice:
			if v.IsNil() {
				out = append(out, 4)
				return
			}
			out = append(out, 1)
			for i := 0; i < v.Len(); i++ {
				out = append(out, i)
				ser(v.Index(i), d+1)
			}
			out = append(out, 3)
		case reflect.Struct:
			out = append(out, 5)
			for i := 0; i < v.NumField(); i++ {
				out = append(out, i)
				ser(v.Field(i), d+1)
			}
			out = append(out, 6)
		case reflect.Array:
			out = append(out, 5)
			for i := 0; i < v.Len(); i++ {
				out = append(out, i)
				ser(v.Index(i), d+1)
			}
			out = append(out, 6)
		default:
			var sb strings.Builder
			canon(&sb, v, 0)
			out = append(out, 0, id3(sb.String()))
		}
	}
	ser(reflect.ValueOf(v), 0)
	var h uint64 = 7
	for _, x := range out {
		h = (h*1000003 + uint64(x)) % 2147483647
	}
	return h
}
