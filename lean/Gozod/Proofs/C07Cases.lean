/-
  C07 — the converter's dispatch and constant tables, REGENERATED from /repo/jsonschema/to.go and
  /repo/core/constants.go into `Gozod/Gen/ToJsonCases.lean` on every run (harness/cmd/c07/cases.go, go/ast),
  against what the hand transcription `toJS` (Model/JsonSchema.lean) assumes.  Every statement quantifies over the
  WHOLE regenerated table, so an edit of the type switch, of `numericRangeDefaults`, of `applyBag`'s key table, of
  `compositeTypes`, of the option tests or of the list of type codes changes a proof obligation here.
-/
import Gozod.Gen.ToJsonCases
import Gozod.Model.JsonSchema
namespace Gozod.C07
open Gozod.Jsc Gozod.Gen.ToJsonCases

/-- the constructors of `S`, as tags. -/
inductive SKind
  | str | int (k : IntKind) | flt | bool | nil | any | never | enum | lit
  | obj | slice | arr | tup | record | union | xor | and
  deriving DecidableEq, Repr

/-- which constructor of `S` models the schemas whose `Internals().Type` is this code
    (`none` = no constructor: see `unmodelled`). -/
def modelledAs : Code → Option SKind
  | .String => some .str
  | .Int => some (.int .int) | .Int8 => some (.int .i8) | .Int16 => some (.int .i16) | .Int32 => some (.int .i32)
  | .Int64 => some (.int .i64)
  | .Uint => some (.int .uint) | .Uint8 => some (.int .u8) | .Uint16 => some (.int .u16) | .Uint32 => some (.int .u32)
  | .Uint64 => some (.int .u64)
  | .Float64 => some .flt
  | .Bool => some .bool | .Nil => some .nil | .Any => some .any | .Never => some .never
  | .Enum => some .enum | .Literal => some .lit
  | .Object => some .obj | .Slice => some .slice | .Array => some .arr | .Tuple => some .tup | .Record => some .record
  | .Union => some .union | .Xor => some .xor | .Intersection => some .and
  | _ => none

/-- type codes no constructor of `S` stands for — the explicit list.  (Optional()/Nilable() of the modelled types are
    flags on the same code and ARE modelled: `S.opt` / `S.nul`; the codes `Optional`/`Nilable`/… below are the separate
    wrapper schema types.) -/
def unmodelled : List Code :=
  [ -- produce a document
    .Number, .Integer, .Float, .Float32, .Uintptr, .Unknown, .Struct, .Map, .Discriminated, .Lazy, .File,
    .Date, .Email, .Time, .Iso, .ISODateTime, .ISODate, .ISOTime, .ISODuration,
    .IPv4, .IPv6, .CIDRv4, .CIDRv6, .URL, .Hostname, .MAC, .E164,
    -- wrapper schema types: the document of the inner schema
    .Optional, .Nilable, .Default, .Prefault, .Refine, .Check, .Pipe, .Pipeline, .Transform,
    -- conversion error unless Unrepresentable:"any" (outside the property: "every schema ToJSONSchema converts without error")
    .Set, .BigInt, .NaN, .StringBool, .Function, .Custom, .Complex64, .Complex128, .NonOptional ]

/-- a sample term of each kind (no checks, smallest shape): its document's head is what the branch must produce. -/
def SKind.sample : SKind → S
  | .str => .str [] | .int k => .int k [] | .flt => .flt [] | .bool => .bool | .nil => .nil | .any => .any | .never => .never
  | .enum => .enum [[97]] | .lit => .lit [.bool true]
  | .obj => .obj .strip .none false [] .nil | .slice => .slice .bool [] | .arr => .arr .none [] .nil | .tup => .tup .none [] .nil
  | .record => .record (.str []) .bool [] | .union => .union (.cons .bool .nil) | .xor => .xor (.cons .bool .nil)
  | .and => .and .bool .bool

def jtype : JType → TypeName
  | .string => .string | .integer => .integer | .number => .number | .boolean => .boolean | .null => .null

/-- the `type` keywords at the head of a document node. -/
def kwTypes : KwList → List TypeName
  | .nil => []
  | .cons (.type t) ks => t :: kwTypes ks
  | .cons _ ks => kwTypes ks

def headTypes : JS → List TypeName
  | .node kws => kwTypes kws
  | .bool _ => []

def kwHasNot : KwList → Bool
  | .nil => false
  | .cons (.not _) _ => true
  | .cons _ ks => kwHasNot ks

def headHasNot : JS → Bool
  | .node kws => kwHasNot kws
  | .bool _ => false

/-- the per-type converter `toJS` transcribes for this kind (the leaf kinds are literals inside doConvert). -/
def SKind.converter : SKind → List Call
  | .str => [.applyStringBag]
  | .int _ => [.applyNumericRangeDefaults]
  | .flt => [.applyNumericRangeDefaults]
  | .bool => [] | .nil => [] | .any => [] | .never => []
  | .enum => [.convertEnum] | .lit => [.convertLiteral]
  | .obj => [.convertObject] | .slice => [.convertArray] | .arr => [.convertArray] | .tup => [.convertTuple]
  | .record => [.convertRecord] | .union => [.convertUnion] | .xor => [.convertXor] | .and => [.convertIntersection]

/-- leaf kinds: the branch is a lib.Schema literal whose `type` is the one `toJS` emits (at depth > 1, no checks);
    composite kinds: the branch delegates to the converter `toJS` transcribes and sets no type itself. -/
def SKind.isLeaf : SKind → Bool
  | .str | .int _ | .flt | .bool | .nil | .any | .never => true
  | _ => false

/-- does the regenerated branch agree with what `toJS` does for kind `k`? -/
def branchOK (k : SKind) (b : Branch) : Bool :=
  b.calls == k.converter && !b.unrep && !b.inner && !b.fallsThrough && !b.isDefault && b.format.isNone
  && (if k.isLeaf then
        -- `Any` is constructed Nilable (convert wraps it in anyOf[{}, null]): no type at the head either way
        b.types.map jtype == headTypes (toJS false false false k.sample)
        && b.notKw == headHasNot (toJS false false false k.sample)
      else b.types.isEmpty && !b.notKw)

def branchOf (c : Code) : List Branch := branches.filter (fun b => b.codes.contains c)

/-- **every type code has its own clause** in doConvert's switch — none is left to `default` silently, none occurs twice. -/
theorem c07_codes_covered : ∀ c ∈ Code.all, (branchOf c).length = 1 := by decide

/-- **modelled / unmodelled is a partition of the type codes.** -/
theorem c07_cases_partition : ∀ c ∈ Code.all, (modelledAs c).isSome = !unmodelled.contains c := by decide

/-- **every branch of a modelled code is the branch `toJS` transcribes**: same per-type converter, same `type`
    (computed from `toJS` itself on a sample term), no error path, no recursion into an inner schema. -/
theorem c07_modelled_branches :
    ∀ b ∈ branches, ∀ c ∈ b.codes, ∀ k, modelledAs c = some k → branchOK k b = true := by decide

/-- after the switch every surviving branch goes through `applyBag` and nothing else (`numKws`, `lengthKws`, `itemsKws`,
    `propsKws` are the Bag → keyword step of the model). -/
theorem c07_tail_is_applyBag : tailCalls = [.applyBag] := by decide

/-- the unmodelled codes whose branch can produce a document without recursing into a modelled inner schema and without an
    error: **the real gap of the model**, as a checked list. -/
def unmodelledWithDocument : List Code :=
  [.Number, .Integer, .Float, .Float32, .Uintptr, .Unknown, .Struct, .Map, .Discriminated, .Lazy, .File,
   .Date, .Email, .Time, .Iso, .ISODateTime, .ISODate, .ISOTime, .ISODuration,
   .IPv4, .IPv6, .CIDRv4, .CIDRv6, .URL, .Hostname, .MAC, .E164]

def producesDocument (c : Code) : Bool :=
  (branchOf c).any (fun b => !b.unrep && !b.fallsThrough && !b.isDefault)

theorem c07_unmodelled_gap : unmodelled.filter producesDocument = unmodelledWithDocument := by decide

/-- the remaining unmodelled codes are wrapper schema types (document of `Inner()`/`Output()`, else an error) or end in
    `ErrUnrepresentableType` (directly or through `fallthrough` into `default`). -/
theorem c07_unmodelled_rest :
    ∀ c ∈ unmodelled, producesDocument c = false →
      (branchOf c).all (fun b => (b.inner && b.unrep) || b.fallsThrough || (b.unrep && b.calls.isEmpty && b.types.isEmpty)) = true := by
  decide

/-- the `default` clause is an error unless Unrepresentable:"any". -/
theorem c07_default_unrepresentable : ∀ b ∈ branches, b.isDefault = true → b.unrep = true ∧ b.codes = [] := by decide

/-! ### numericRangeDefaults -/

def kindCode : IntKind → Code
  | .int => .Int | .i8 => .Int8 | .i16 => .Int16 | .i32 => .Int32 | .i64 => .Int64
  | .uint => .Uint | .u8 => .Uint8 | .u16 => .Uint16 | .u32 => .Uint32 | .u64 => .Uint64

def rangeOf (c : Code) : Option (Int × Int) := (rangeDefaults.find? (fun r => r.1 == c)).map (·.2)

/-- **the depth-1 range defaults of the model are the source's table** (in quarters). -/
theorem c07_range_defaults_int (k : IntKind) :
    (rangeOf (kindCode k)).map (fun r => (4 * r.1, 4 * r.2)) = some k.defaults := by
  cases k <;> decide +kernel

theorem c07_range_defaults_flt :
    (rangeOf .Float64).map (fun r => (4 * r.1, 4 * r.2)) = some (-fltDefault, fltDefault) := by decide +kernel

/-- `top` in `toJS top o n` is `c.depth == 1`. -/
theorem c07_range_defaults_depth : rangeDefaultsDepth = 1 := by decide

/-- a modelled code has range defaults exactly when `toJS` gives its kind some (`numKws … top dflt`). -/
theorem c07_range_defaults_domain :
    ∀ c ∈ Code.all, ∀ k, modelledAs c = some k →
      (rangeOf c).isSome = (match k with | .int _ => true | .flt => true | _ => false) := by decide

/-! ### applyBag: Bag key → keyword -/

/-- the Bag keys the modelled checks write, with the keyword the model emits for them
    (`lengthKws`/`strKws`: min/maxLength; `numKws`: the five numeric ones; `itemsKws`; `propsKws`). -/
def modelledBagKeys : List (BagKey × KwField) :=
  [(.minLength, .MinLength), (.maxLength, .MaxLength),
   (.minimum, .Minimum), (.maximum, .Maximum), (.exclusiveMinimum, .ExclusiveMinimum), (.exclusiveMaximum, .ExclusiveMaximum),
   (.multipleOf, .MultipleOf),
   (.minItems, .MinItems), (.maxItems, .MaxItems), (.minProperties, .MinProperties), (.maxProperties, .MaxProperties)]

/-- **every Bag key of a modelled check is copied to exactly the keyword the model emits.** -/
theorem c07_bag_keywords :
    ∀ p ∈ modelledBagKeys, (bagTable.filter (fun r => r.1 == p.1)) = [p] := by decide

/-- the keyword a model `Kw` is serialised as, in the converter's field names. -/
def kwField : Kw → Option KwField
  | .minLength _ => some .MinLength | .maxLength _ => some .MaxLength
  | .minimum _ => some .Minimum | .maximum _ => some .Maximum
  | .exclusiveMinimum _ => some .ExclusiveMinimum | .exclusiveMaximum _ => some .ExclusiveMaximum
  | .multipleOf _ => some .MultipleOf
  | .minItems _ => some .MinItems | .maxItems _ => some .MaxItems
  | .minProperties _ => some .MinProperties | .maxProperties _ => some .MaxProperties
  | _ => none

/-- the model's Bag → keyword functions emit only keywords of `modelledBagKeys`, each from the Bag slot of that key
    (a `decide`d instance per function with every slot filled: a TEST of the transcription, the general statement is the
    definition of `numKws` / `lengthKws` / `itemsKws` / `propsKws` read together with `c07_bag_keywords`). -/
theorem c07_bag_model_instances :
    (lengthKws ⟨some 1, some 2⟩).map kwField = [some .MinLength, some .MaxLength]
    ∧ (itemsKws ⟨some 1, some 2⟩).map kwField = [some .MinItems, some .MaxItems]
    ∧ (propsKws ⟨some 1, some 2⟩).map kwField = [some .MinProperties, some .MaxProperties]
    ∧ (numKws 1 [.gte 1, .lte 9, .mul 2] false (0, 0)).map kwField = [some .Minimum, some .Maximum, some .MultipleOf]
    ∧ (numKws 1 [.gt 1, .lt 9] false (0, 0)).map kwField = [some .ExclusiveMinimum, some .ExclusiveMaximum] := by decide

/-- Bag keys that reach a keyword of ANOTHER name (File's minSize/maxSize → min/maxLength, mime → contentMediaType):
    none of them is written by a modelled check. -/
theorem c07_bag_renamed :
    bagTable.filter (fun r => !(modelledBagKeys.contains r) && !([(BagKey.format, KwField.Format),
      (.contentEncoding, .ContentEncoding), (.contentMediaType, .ContentMediaType)].contains r))
      = [(.minSize, .MinLength), (.maxSize, .MaxLength), (.mime, .ContentMediaType)] := by decide

/-! ### options and `$defs` candidates -/

/-- the option values the converter compares against are exactly the four the model's `Opts` distinguishes by a string
    (`ioInput`, `unrepAny`, `reusedRef`, `cyclesThrow`); `Target` is compared with nothing (`Opts.draft07` is read by nothing). -/
theorem c07_option_tests : OptTest.all = [.Cycles_throw, .IO_input, .Reused_ref, .Unrepresentable_any] := by decide

/-- what Reused:"ref" may move to `$defs`: modelled kinds, and `Struct`. -/
theorem c07_composite_types :
    compositeTypes = [.Object, .Struct, .Slice, .Array, .Record, .Union, .Intersection]
    ∧ ∀ c ∈ compositeTypes, (modelledAs c).isSome = true ∨ c = .Struct := by decide

end Gozod.C07
