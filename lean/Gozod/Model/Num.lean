/-
  Gozod.Model.Num — numbers as the Go code sees them.

  Core-only (no Mathlib): this file is linked into the `driver` executable.

  * `IntTy`    — the ten Go integer types (int/uint are 64-bit: amd64).
  * `F`        — an IEEE-754 binary64 value, held exactly as a dyadic rational
                 `a / 2^k` (or NaN / ±Inf).  float32 values are widened to binary64
                 by the harness (exact), so one type serves both.
  * `round53`  — float64(int64/uint64): round-to-nearest-even to 53 significant bits.
  * `Num`      — what `pkg/validate.toNum` produces: an int64, a uint64 or a float64.
  * `cmpNum`, `multipleOfNum` — transcription of `pkg/validate.compareNumeric` /
                 `MultipleOf` (the code after the `fix:` commit for C16), and
    `legacyCmp`, `legacyMultipleOfInt` — transcription of the code at the pinned commit
                 (everything through float64), kept so that the defect is a theorem.
-/
namespace Gozod

inductive IntTy where
  | i8 | i16 | i32 | i64 | int | u8 | u16 | u32 | u64 | uint
  deriving DecidableEq, Repr, Inhabited

namespace IntTy

def signed : IntTy → Bool
  | i8 | i16 | i32 | i64 | int => true
  | _ => false

def bits : IntTy → Nat
  | i8 | u8 => 8
  | i16 | u16 => 16
  | i32 | u32 => 32
  | _ => 64

def lo (t : IntTy) : Int := if t.signed then -(2 ^ (t.bits - 1) : Int) else 0
def hi (t : IntTy) : Int := if t.signed then (2 ^ (t.bits - 1) : Int) - 1 else (2 ^ t.bits : Int) - 1

/-- `v` is a value of Go type `t`. -/
def inRange (t : IntTy) (v : Int) : Prop := t.lo ≤ v ∧ v ≤ t.hi

instance (t : IntTy) (v : Int) : Decidable (t.inRange v) := by
  unfold inRange; exact inferInstance

def ofString? : String → Option IntTy
  | "i8" => some i8 | "i16" => some i16 | "i32" => some i32 | "i64" => some i64 | "int" => some int
  | "u8" => some u8 | "u16" => some u16 | "u32" => some u32 | "u64" => some u64 | "uint" => some uint
  | _ => none

end IntTy

/-! ## binary64 as exact dyadic rationals -/

/-- A float64 value. `fin a k` denotes the rational `a / 2^k`. Negative zero is `fin 0 0`
    (the comparisons of this module cannot tell ±0 apart, exactly like IEEE `<`/`==`). -/
inductive F where
  | nan
  | pinf
  | ninf
  | fin (a : Int) (k : Nat)
  deriving Repr, Inhabited, DecidableEq

namespace F

/-- Decode an IEEE-754 binary64 bit pattern (given as a natural `< 2^64`). -/
def ofBits (b : Nat) : F :=
  let neg := b / 2 ^ 63 % 2 == 1
  let ex := b / 2 ^ 52 % 2048
  let fr := b % 2 ^ 52
  let sgn (n : Nat) : Int := if neg then -(n : Int) else (n : Int)
  if ex == 2047 then
    (if fr == 0 then (if neg then ninf else pinf) else nan)
  else if ex == 0 then
    fin (sgn fr) 1074
  else if ex ≥ 1075 then
    fin (sgn ((2 ^ 52 + fr) * 2 ^ (ex - 1075))) 0
  else
    fin (sgn (2 ^ 52 + fr)) (1075 - ex)

/-- The float64 holding exactly the integer `n` (callers guarantee representability). -/
def ofInt (n : Int) : F := fin n 0

/-- Mathematical comparison on the extended reals; `none` = unordered (NaN involved). -/
def cmp : F → F → Option Ordering
  | nan, _ => none
  | _, nan => none
  | pinf, pinf => some .eq
  | pinf, _ => some .gt
  | _, pinf => some .lt
  | ninf, ninf => some .eq
  | ninf, _ => some .lt
  | _, ninf => some .gt
  | fin a k, fin b l => some (compare (a * 2 ^ l) (b * 2 ^ k))

def isNaN : F → Bool
  | nan => true
  | _ => false

/-- `math.Trunc` on a finite value: the integer part, toward zero. -/
def truncInt (a : Int) (k : Nat) : Int := Int.tdiv a (2 ^ k)

end F

/-! ## float64(integer): round to nearest, ties to even, 53 significant bits -/

/-- Number of low bits that do not fit in `p` significant bits (fuel-bounded; 64 is enough
    for every 64-bit integer). -/
def excessBits (p : Nat) : Nat → Nat → Nat
  | 0, _ => 0
  | fuel + 1, n => if n < 2 ^ p then 0 else 1 + excessBits p fuel (n / 2)

def roundTo (p : Nat) (n : Nat) : Nat :=
  let sh := excessBits p 64 n
  if sh = 0 then n else
    let q := n / 2 ^ sh
    let r := n % 2 ^ sh
    let half := 2 ^ (sh - 1)
    let q' := if r > half ∨ (r = half ∧ q % 2 = 1) then q + 1 else q
    q' * 2 ^ sh

def round53 (n : Nat) : Nat := roundTo 53 n

/-- The (integer) value of `float64(v)` for a 64-bit integer `v`. -/
def toF64Int (v : Int) : Int :=
  if v < 0 then -((round53 v.natAbs : Nat) : Int) else ((round53 v.natAbs : Nat) : Int)

/-! ## `pkg/validate`: numeric comparison -/

inductive CmpOp where
  | lt | lte | gt | gte
  deriving DecidableEq, Repr, Inhabited

namespace CmpOp
def ofString? : String → Option CmpOp
  | "lt" => some lt | "lte" => some lte | "gt" => some gt | "gte" => some gte | _ => none

/-- The documented meaning on integers. -/
def holdsInt : CmpOp → Int → Int → Bool
  | lt, v, b => decide (v < b)
  | lte, v, b => decide (v ≤ b)
  | gt, v, b => decide (v > b)
  | gte, v, b => decide (v ≥ b)

def ofOrdering : CmpOp → Ordering → Bool
  | lt, .lt => true
  | lt, _ => false
  | lte, .gt => false
  | lte, _ => true
  | gt, .gt => true
  | gt, _ => false
  | gte, .lt => false
  | gte, _ => true
end CmpOp

/-- What `toNum` extracts from an `any`: an `int64`, a `uint64` or a `float64` payload. -/
inductive Num where
  | i (v : Int)      -- held in an int64
  | u (v : Int)      -- held in a uint64
  | f (x : F)        -- held in a float64 (float32 widened)
  deriving Repr, Inhabited

def Num.ofInt (t : IntTy) (v : Int) : Num := if t.signed then .i v else .u v

/-- Go's `uint64(x)` conversion of an `int64` (two's-complement wrap). -/
def castU64 (a : Int) : Int := a % 2 ^ 64

/-- `cmpInts` of the fixed code: both operands integers. -/
def cmpInts : Num → Num → Ordering
  | .i a, .i b => compare a b
  | .u a, .u b => compare a b
  | .i a, .u b => if a < 0 then .lt else compare (castU64 a) b
  | .u a, .i b => if b < 0 then .gt else compare a (castU64 b)
  | _, _ => .eq  -- not reached (callers pass integers only)

/-- `cmp.Compare(t, f)` where `t = math.Trunc(f)` and `f = a / 2^k`: the sign of the
    fractional part decides. -/
def fracTie (a t : Int) (k : Nat) : Ordering :=
  if a > t * 2 ^ k then .lt else if a < t * 2 ^ k then .gt else .eq

/-- Compare the integer `v` with `f = a / 2^k` given `t = trunc f` (which fits `v`'s type). -/
def cmpWithTrunc (v t a : Int) (k : Nat) : Ordering :=
  match compare v t with
  | .eq => fracTie a t k
  | c => c

/-- `cmpIntFloat` of the fixed code: an integer against a float64, exactly.
    Go: NaN → unordered; ±Inf by sign; otherwise compare with `math.Trunc(f)` when that is in
    the integer type's range, then break the tie on the fractional part. -/
def cmpIntFloat (n : Num) (x : F) : Option Ordering :=
  match x with
  | .nan => none
  | .pinf => some .lt
  | .ninf => some .gt
  | .fin a k =>
    let t := F.truncInt a k            -- math.Trunc(f), an integer-valued float64 (exact)
    match n with
    | .u v =>
      if a < 0 then some .gt           -- f < 0 ≤ u
      else if t ≥ 2 ^ 64 then some .lt -- f ≥ 2^64 > u
      else some (cmpWithTrunc v t a k) -- uint64(t) is exact here
    | .i v =>
      if t ≥ 2 ^ 63 then some .lt
      else if t < -(2 ^ 63) then some .gt
      else some (cmpWithTrunc v t a k) -- int64(t) is exact here
    | .f _ => none  -- not reached

def Ordering.flip : Ordering → Ordering
  | .lt => .gt | .gt => .lt | .eq => .eq

/-- `compareNumeric` of the fixed code. -/
def cmpNum : Num → Num → Option Ordering
  | .f x, .f y => F.cmp x y
  | .f x, n => (cmpIntFloat n x).map Ordering.flip
  | n, .f y => cmpIntFloat n y
  | a, b => some (cmpInts a b)

/-- `validate.Lt/Lte/Gt/Gte` of the fixed code: false when unordered. -/
def implCmp (op : CmpOp) (v b : Num) : Bool :=
  match cmpNum v b with
  | none => false
  | some o => op.ofOrdering o

/-- The mathematical value of a `Num` as an extended real, for specifications. -/
def Num.toF : Num → F
  | .i v => F.ofInt v
  | .u v => F.ofInt v
  | .f x => x

/-- The documented meaning of a comparison: the mathematical order on the values denoted,
    false when a NaN is involved. -/
def specCmp (op : CmpOp) (v b : Num) : Bool :=
  match F.cmp v.toF b.toF with
  | none => false
  | some o => op.ofOrdering o

/-! ### the pinned commit's algorithm: everything through float64 -/

def legacyCmpInt (op : CmpOp) (v b : Int) : Bool :=
  op.holdsInt (toF64Int v) (toF64Int b)

/-! ## MultipleOf -/

/-- Go's `%` on int64 (truncated division); `x % -1 = 0` also for MinInt64. -/
def goRem (a b : Int) : Int := Int.tmod a b

/-- Integer branch of the fixed `validate.MultipleOf`: both operands integers. -/
def multipleOfInts : Num → Num → Bool
  | .i v, .i d => if d = 0 then false else goRem v d == 0
  | .u v, .u d => if d = 0 then false else v % d == 0
  | .u v, .i d =>
    if d = 0 then false
    else
      -- |d| as a uint64: Go computes `uint64(-(d+1)) + 1` for negative d (no overflow at MinInt64)
      let m : Int := if d < 0 then castU64 (-(d + 1)) + 1 else castU64 d
      v % m == 0
  | .i v, .u d =>
    if d = 0 then false
    else if d > 2 ^ 63 - 1 then
      -- divisor exceeds every |int64| except possibly |MinInt64| = 2^63
      v == 0 || (v == -(2 ^ 63) && d == 2 ^ 63)
    else goRem v d == 0
  | _, _ => false

/-- Documented meaning on integers. -/
def specMultipleOfInt (v d : Int) : Bool := decide (d ≠ 0 ∧ d ∣ v)

/-- Pinned commit: `math.Mod` through float64 with a relative epsilon `max(1e-10, |d|·1e-6)`.
    For integer operands below 2^53 the float operations are exact, and the test
    `r < ε ∨ ||d| − r| < ε` with ε = |d|·10⁻⁶ is `r·10⁶ < |d| ∨ (|d|−r)·10⁶ < |d|`
    (for |d| ≥ 1, ε = |d|·1e-6 ≥ 1e-10). This is the exact-rational reading of the legacy test,
    used only to exhibit the defect as a theorem on small operands. -/
def legacyMultipleOfSmall (v d : Int) : Bool :=
  if d = 0 then false
  else
    let r := (Int.tmod v d).natAbs
    let ad := d.natAbs
    decide (r * 1000000 < ad) || decide ((ad - r) * 1000000 < ad)

end Gozod
