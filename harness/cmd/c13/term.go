package main

// C13, round 4 — "gozodgen terminates".  The analyzer's only unbounded recursion is typesToReflectType over the go/types
// type of every field; the Lean model (Model/GenTerm.lean) transcribes it over environments of named types.  Each case
// here is a small package given as such an environment; gozodgen is run on its Go rendering with a time limit.
//
//	c13 term <fields of Root> | <env>        ok | crash | timeout | exit:<n>
//	c13 tconv <fields of Root> | <env>       types=<reflect.Type of every converted field, by Kind, joined by ';'>
//
// Type syntax (prefix, no spaces):  B int · P<t> *t · S<t> []t · A<t> [2]t · M<k><v> map[k]v · N<i>. the named type T<i> ·
// T time.Time · I any.   Environment: entries separated by ';', entry i is the underlying type of T<i>; a struct type is
// written  R:<field>,<field>…  (its fields are converted too, each carrying a gozod tag).
import (
	"bytes"
	"encoding/json"
	"fmt"
	"go/ast"
	"go/importer"
	"go/parser"
	"go/token"
	"go/types"
	"os"
	"os/exec"
	"path/filepath"
	"strconv"
	"strings"
	"time"

	"verifharness/hx"
)

type termCase struct {
	env    []string
	fields []string
	what   string
}

var termCases = []termCase{
	{[]string{"R:PN0.,SPN0."}, []string{"N0."}, "Node { Next *Node; Children []*Node } (cmd/gozodgen/testdata/circular_struct.go)"},
	{[]string{"R:PN1.,SPN1.", "R:PN0.,SPN1."}, []string{"PN0."}, "Department <-> Employee"},
	{[]string{"R:MBPN1.", "R:MBPN2.", "R:SN0."}, []string{"N2.", "SPN1."}, "three structs in a cycle through maps and slices"},
	{[]string{"R:N1.", "R:N2.", "R:PN0."}, []string{"N0."}, "struct values nested three deep, closing with a pointer"},
	{[]string{"SN0."}, []string{"N0."}, "type T0 []T0"},
	{[]string{"MBN0."}, []string{"N0."}, "type T0 map[int]T0"},
	{[]string{"PN0."}, []string{"N0."}, "type T0 *T0"},
	{[]string{"SPN0."}, []string{"PN0."}, "type T0 []*T0"},
	{[]string{"SN1.", "SN0."}, []string{"N0."}, "type T0 []T1; type T1 []T0"},
	{[]string{"SN1.", "MBN2.", "R:B"}, []string{"SSSN0.", "MBN1."}, "acyclic chain of named slice / map types ending in a struct"},
	{[]string{"SN0."}, []string{"B"}, "a recursive named type that no struct field uses"},
	{[]string{"R:N1.", "SN1."}, []string{"PN0."}, "the recursive named type sits in a field of a referenced struct"},
	{[]string{"AN0."}, []string{"SN0."}, "type T0 [2]T0 would be invalid Go: replaced below"},
	{nil, []string{"SSSSSSSSSSSSSSSSB", "MBMBMBMBSPB"}, "deep anonymous nesting"},
	{nil, []string{"T", "PT", "ST", "MBT"}, "time.Time in every position"},
	{[]string{"I", "MBN0."}, []string{"N1.", "SN0."}, "named interface, and a named map of it"},
}

func termGo(s string) (string, string) { // rendered type, rest
	if s == "" {
		die("term: empty type")
	}
	switch s[0] {
	case 'B':
		return "int", s[1:]
	case 'T':
		return "time.Time", s[1:]
	case 'I':
		return "any", s[1:]
	case 'P':
		t, r := termGo(s[1:])
		return "*" + t, r
	case 'S':
		t, r := termGo(s[1:])
		return "[]" + t, r
	case 'A':
		t, r := termGo(s[1:])
		return "[2]" + t, r
	case 'M':
		k, r := termGo(s[1:])
		v, r2 := termGo(r)
		return "map[" + k + "]" + v, r2
	case 'N':
		i := strings.IndexByte(s, '.')
		return "T" + s[1:i], s[i+1:]
	}
	die("term: bad type syntax %q", s)
	return "", ""
}

func termSource(tc termCase) string {
	var sb strings.Builder
	fields := func(fs []string) {
		for i, f := range fs {
			t, _ := termGo(f)
			fmt.Fprintf(&sb, "\tF%d %s `gozod:\"required\"`\n", i, t)
		}
	}
	for i, e := range tc.env {
		if strings.HasPrefix(e, "R:") {
			fmt.Fprintf(&sb, "type T%d struct {\n", i)
			fields(strings.Split(e[2:], ","))
			sb.WriteString("}\n\n")
		} else {
			t, _ := termGo(e)
			fmt.Fprintf(&sb, "type T%d %s\n\n", i, t)
		}
	}
	sb.WriteString("type Root struct {\n")
	fields(tc.fields)
	sb.WriteString("}\n")
	head := "package main\n\n"
	if strings.Contains(sb.String(), "time.Time") {
		head += "import \"time\"\n\n"
	}
	return head + sb.String()
}

var srcImporter = importer.ForCompiler(token.NewFileSet(), "source", nil)

// invalidRecursive: does the Go type checker reject the package with "invalid recursive type"?
func invalidRecursive(src string) bool {
	fset := token.NewFileSet()
	f, err := parser.ParseFile(fset, "m.go", src, 0)
	if err != nil {
		die("term: generated source does not parse: %v", err)
	}
	bad := false
	conf := types.Config{Importer: srcImporter, Error: func(err error) {
		if strings.Contains(err.Error(), "invalid recursive type") {
			bad = true
		}
	}}
	conf.Check("main", fset, []*ast.File{f}, nil)
	return bad
}

// analyzedTypes runs the REAL analyzer (hook GOZODGEN_VERIF_TYPES, wide.go) on the package and returns, per struct, the
// reflect.Type it built for every field, rendered by Kind.
func analyzedTypes(gen, dir string) (map[string][]string, string) {
	cmd := exec.Command(gen)
	cmd.Env = append(os.Environ(), "GOZODGEN_VERIF_TYPES="+dir)
	var out, errb bytes.Buffer
	cmd.Stdout, cmd.Stderr = &out, &errb
	done := make(chan error, 1)
	if err := cmd.Start(); err != nil {
		return nil, "start:" + err.Error()
	}
	go func() { done <- cmd.Wait() }()
	select {
	case err := <-done:
		if err != nil {
			if strings.Contains(errb.String(), "stack overflow") || strings.Contains(errb.String(), "fatal error") {
				return nil, "crash"
			}
			return nil, "exit"
		}
	case <-time.After(60 * time.Second):
		cmd.Process.Kill()
		return nil, "timeout"
	}
	for _, l := range strings.Split(out.String(), "\n") {
		if rest, ok := strings.CutPrefix(l, "VERIFTYPES "); ok {
			res := map[string][]string{}
			if err := json.Unmarshal([]byte(rest), &res); err != nil {
				return nil, "badjson"
			}
			return res, ""
		}
	}
	return nil, "nooutput"
}

func emitTerm(o *hx.Out, tmp, gen string, rng *hx.Rng, thorough bool) {
	cases := append([]termCase{}, termCases...)
	// random environments: 2–4 named types, each a struct or a slice / map / pointer of a random other name
	n := 6
	if thorough {
		n = 40
	}
	for i := 0; i < n; i++ {
		k := 2 + rng.Intn(3)
		var env []string
		ref := func() string { return "N" + strconv.Itoa(rng.Intn(k)) + "." }
		wrap := func(t string) string { return hx.Pick(rng, []string{"S", "P", "MB", "SP", ""}) + t }
		for j := 0; j < k; j++ {
			if rng.Chance(50) {
				env = append(env, "R:"+wrap(ref())+","+wrap(ref()))
			} else {
				env = append(env, hx.Pick(rng, []string{"S", "MB", "SP", "SS"})+ref())
			}
		}
		cases = append(cases, termCase{env, []string{wrap(ref()), wrap(ref())}, "random environment"})
	}
	for ci, tc := range cases {
		if len(tc.env) == 1 && tc.env[0] == "AN0." {
			continue
		}
		src := termSource(tc)
		// `type T0 T1`-style direct struct-value cycles are invalid Go ("invalid recursive type"): the Go type checker inside
		// gozodgen only warns; such packages are skipped here by asking the real compiler first
		dir := filepath.Join(tmp, "term", strconv.Itoa(ci))
		os.MkdirAll(dir, 0o755)
		os.WriteFile(filepath.Join(dir, "m.go"), []byte(src+"\nfunc main() {}\n"), 0o644)
		if invalidRecursive(src + "\nfunc main() {}\n") {
			o.Count("term:skipped-invalid-go")
			continue
		}
		out, rc, to := goRun(tmp, 60*time.Second, gen, dir)
		obs := "ok"
		switch {
		case to:
			obs = "timeout"
		case rc != 0 && (strings.Contains(out, "stack overflow") || strings.Contains(out, "fatal error") || strings.Contains(out, "panic:")):
			obs = "crash"
		case rc != 0:
			obs = "exit:" + strconv.Itoa(rc)
		}
		env := strings.Join(tc.env, ";")
		if env == "" {
			env = "-"
		}
		what := tc.what + ": " + strings.ReplaceAll(strings.TrimPrefix(src, "package main\n\n"), "\n", " ")
		o.Emit(fmt.Sprintf("c13 term %s | %s # %s", strings.Join(tc.fields, ","), env, what), obs)
		o.Count("term:" + obs)
		// the RESULT of the conversion: the reflect.Type the real analyzer built for every field that is converted (Root's
		// fields, then the fields of the struct types of the environment in order) — against GenTerm.convV in the driver
		tobs := ""
		// (on a copy that holds the source file only: a directory that already contains generated files is another case — op `regen`)
		tdir := filepath.Join(tmp, "termt", strconv.Itoa(ci))
		os.MkdirAll(tdir, 0o755)
		os.WriteFile(filepath.Join(tdir, "m.go"), []byte(src+"\nfunc main() {}\n"), 0o644)
		if ts, bad := analyzedTypes(gen, tdir); bad != "" {
			tobs = bad
		} else {
			all := append([]string{}, ts["Root"]...)
			for i, e := range tc.env {
				if strings.HasPrefix(e, "R:") {
					all = append(all, ts["T"+strconv.Itoa(i)]...)
				}
			}
			tobs = "types=" + strings.Join(all, ";")
		}
		o.Emit(fmt.Sprintf("c13 tconv %s | %s # %s", strings.Join(tc.fields, ","), env, what), tobs)
		o.Count("tconv:" + strings.SplitN(tobs, "=", 2)[0])
	}
}
