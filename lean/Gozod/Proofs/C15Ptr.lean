/-
  C15 — Parse through a caller's pointer (`Gozod.Graph.parsePtrS`, the model of validatePointer after /repo e584c0e).

    own_ptr_input_unchanged   Parse through a pointer — any schema of the `own` language, accepted or refused — writes nothing
                              that existed: the caller's variable, the pointee's graph and every schema-held cell hold what
                              they held (the first clause of the property, for pointers)
    own_ptr_same_pointer      when the validated value is the value the pointer refers to, the caller's own pointer comes back
    own_ptr_own_pointer       otherwise (the schema built a new value) the answer is a pointer allocated by this call whose
                              pointee is the validated value
    legacy_ptr_pointee_replaced   witness for the code before e584c0e (`*ptr = v`): an object schema in strip mode, a map with
                              an unknown key passed by pointer: the caller's variable refers to another map afterwards
-/
import Gozod.Proofs.C15Own

namespace Gozod.C15
open Gozod.Graph

/-- **own_ptr_input_unchanged**: without an overwrite, Parse through a caller's pointer only allocates. -/
theorem own_ptr_input_unchanged (s : GSchema) (σ : GStore) (p : Loc) (n : Nat) (hn : n ≤ σ.next) (ho : OwnedS n σ.heap s) :
    GExt σ.next σ (parsePtrS false s σ p).1 := by
  unfold parsePtrS
  split
  · next v _ =>
    have e := own_parse_ext s σ v n hn ho
    split
    · exact e
    · simp only [Bool.false_eq_true, ↓reduceIte]
      split
      · exact e
      · split
        · exact e
        · exact e.trans (galloc_ext _ _ _ e.1)
  · exact GExt.refl _ _

/-- **own_ptr_same_pointer**: the validated value is the pointee itself → the caller's pointer is the answer. -/
theorem own_ptr_same_pointer (s : GSchema) (σ : GStore) (p : Loc) (v w : GVal) (hp : readG σ.heap p = [(0, v)])
    (hw : (parseS s σ v).2 = some w) (hsame : sameV gdepth w v = true) :
    (parsePtrS false s σ p).2 = some (.ref p) := by
  unfold parsePtrS
  rw [hp]
  simp only [hw, hsame, Bool.false_eq_true, ↓reduceIte]

/-- **own_ptr_own_pointer**: the schema built a new value that is not a map with exactly the pointee's entries → a pointer
    allocated by this call, holding that value. -/
theorem own_ptr_own_pointer (s : GSchema) (σ : GStore) (p : Loc) (v w : GVal) (hp : readG σ.heap p = [(0, v)])
    (hw : (parseS s σ v).2 = some w) (hdiff : sameV gdepth w v = false)
    (hent : sameEntriesV (parseS s σ v).1.heap w v = false) :
    (parsePtrS false s σ p).2 = some (.ref (parseS s σ v).1.next) ∧
    readG (parsePtrS false s σ p).1.heap (parseS s σ v).1.next = [(0, w)] := by
  unfold parsePtrS
  rw [hp]
  simp only [hw, hdiff, hent, Bool.false_eq_true, ↓reduceIte]
  exact ⟨rfl, by simp [galloc, readG, gupd]⟩

/-- **own_ptr_same_entries** (/repo 3302475): the schema built a new map holding exactly the pointee's entries → the caller's
    own pointer. -/
theorem own_ptr_same_entries (s : GSchema) (σ : GStore) (p : Loc) (v w : GVal) (hp : readG σ.heap p = [(0, v)])
    (hw : (parseS s σ v).2 = some w) (hent : sameEntriesV (parseS s σ v).1.heap w v = true) :
    (parsePtrS false s σ p).2 = some (.ref p) := by
  unfold parsePtrS
  rw [hp]
  simp only [hw, hent, Bool.false_eq_true, ↓reduceIte]
  split <;> rfl

/-- cell 1 = the caller's map `{9: 7, 10: 7}` (key 10 unknown to the schema), cell 2 = the caller's variable holding it -/
def σp : GStore :=
  { heap := gupd (gupd (fun _ => none) 1 [(9, .scalar 7), (10, .scalar 7)]) 2 [(0, .ref 1)], next := 3 }

/-- **Witness (the code before e584c0e)**: `Object({9: any}).Parse(&m)` stored the stripped result map through the pointer:
    the caller's variable (cell 2) refers to another map afterwards; the fixed code leaves it alone and answers with a
    pointer of its own. -/
theorem legacy_ptr_pointee_replaced :
    let s := GSchema.obj .strip [9] (fun _ => .any)
    reach gdepth (parsePtrS true s σp 2).1.heap (.ref 2) ≠ reach gdepth σp.heap (.ref 2) ∧
    ser gdepth (parsePtrS true s σp 2).1.heap (.ref 2) ≠ ser gdepth σp.heap (.ref 2) ∧
    reach gdepth (parsePtrS false s σp 2).1.heap (.ref 2) = reach gdepth σp.heap (.ref 2) ∧
    ser gdepth (parsePtrS false s σp 2).1.heap (.ref 2) = ser gdepth σp.heap (.ref 2) ∧
    isRef (parsePtrS false s σp 2).2 4 = true ∧ isRef (parsePtrS true s σp 2).2 2 = true := by decide

/-- a slice schema hands back the caller's slice itself: the caller's pointer comes back (hypotheses of `own_ptr_same_pointer`) -/
example :
    let σ : GStore := { heap := gupd (gupd (fun _ => none) 1 [(0, .scalar 7)]) 2 [(0, .ref 1)], next := 3 }
    isRef (parsePtrS false (.slice .any) σ 2).2 2 = true := by decide

/-! ### the pointer clause over every variant of every schema (`parsePtrP`, round 4c)

    ptrP_input_unchanged       value-typed, optional, nilable or pointer-typed, any schema of the language, accepted or refused:
                               Parse(&v) only allocates — the caller's variable, the pointee's graph, every schema cell hold
                               what they held ("input value graph unchanged", the pointer half)
    ptr_same_pointer_full      THEOREM (code as it is, /repo 3302475): pointer-typed / optional / nilable, ANY root, accepted,
                               documented answer looks like the pointee (`wantSame = some true`, written without the model) →
                               the SAME pointer. Non-object roots hand back the value they were given (`ptr_same_pointer_nonobj`,
                               `parse_keeps`, `sameValue`); an object's new map holds exactly the caller's entries
                               (`obj_same_entries`, `fold_obj_all`, `sameEntries`)
    legacy_objptr_own_pointer  witness for the code before 3302475 (`parsePtrS0`): `ObjectPtr({a}).Parse(&{a:x})` answered with a
                               pointer of its own (was open: ptr:parse:different-pointer:ZodObject)
    obj_builds_new             an object's answer is a map allocated by the call
    ptr_clauses_exclusive      why `wantSame = some false` demands a pointer of its own: a store that left the input graph
                               unchanged shows, through the caller's pointer, what it showed before — so the same pointer can
                               never carry an answer that looks different from the pointee
    ptr_letter_conflict        witness: `Object({9}).Parse(&{9:7, 10:7})` — documented answer `{9:7}` ≠ pointee: the letter of
                               the two clauses cannot hold together there -/

/-- the root (below defaults) is an object -/
def rootObj : GSchema → Bool
  | .obj _ _ _ => true
  | .dflt _ t => rootObj t
  | _ => false

theorem ownedS_underDflt (n : Nat) (h : GHeap) : ∀ s, OwnedS n h s → OwnedS n h (underDflt s) := by
  intro s
  induction s with
  | dflt d t ih => intro ho; exact ih ho.2
  | any => exact id
  | str ss => exact id
  | lit rm ms => exact id
  | obj m f k _ => exact id
  | slice t _ => exact id
  | record t _ => exact id
  | union a b _ _ => exact id

/-- **ptrP_input_unchanged**: Parse through a caller's pointer, every variant, every schema, accepted or refused, only allocates. -/
theorem ptrP_input_unchanged (ps : PSchema) (σ : GStore) (p : Loc) (n : Nat) (hn : n ≤ σ.next) (ho : OwnedS n σ.heap ps.s) :
    GExt σ.next σ (parsePtrP ps σ p).1 := by
  have ho' := ownedS_underDflt n σ.heap ps.s ho
  unfold parsePtrP
  split
  · split
    · exact own_ptr_input_unchanged _ σ p n hn ho'
    · split
      · exact GExt.refl _ _
      · split
        · exact own_parse_ext _ σ _ n hn ho'
        · exact GExt.refl _ _
  · exact GExt.refl _ _

/-- … hence what the caller sees through its pointer — cells and look — is what it saw (first clause, pointer half) -/
theorem ptrP_pointee_unchanged (ps : PSchema) (σ : GStore) (p : Loc) (n : Nat) (hn : n ≤ σ.next) (ho : OwnedS n σ.heap ps.s)
    (hb : ∀ x ∈ reach gdepth σ.heap (.ref p), x < σ.next) :
    reach gdepth (parsePtrP ps σ p).1.heap (.ref p) = reach gdepth σ.heap (.ref p) ∧
    ser gdepth (parsePtrP ps σ p).1.heap (.ref p) = ser gdepth σ.heap (.ref p) :=
  g_graph_frame gdepth σ.next σ _ _ (ptrP_input_unchanged ps σ p n hn ho) hb

/-- every type of the language that takes a pointer and is not an object hands back the value it was given -/
theorem parse_keeps : ∀ (s : GSchema), takesPtr s = true → rootObj s = false → ∀ (σ : GStore) (v w : GVal),
    (parseS (underDflt s) σ v).2 = some w → w = v := by
  intro s
  induction s with
  | any => intro _ _ σ v w h; simp only [underDflt, parseS, Option.some.injEq] at h; exact h.symm
  | str ss =>
    intro _ _ σ v w h
    simp only [underDflt] at h
    unfold parseS at h
    split at h
    · simp only at h
      split at h
      · exact (Option.some.inj h).symm
      · cases h
    · cases h
  | lit rm ms => intro ht; cases ht
  | union a b _ _ => intro ht; cases ht
  | dflt d t ih => intro ht hr σ v w h; exact ih ht hr σ v w h
  | obj m f k _ => intro _ hr; cases hr
  | slice t _ =>
    intro _ _ σ v w h
    simp only [underDflt] at h
    unfold parseS at h
    split at h
    · split at h
      · unfold validated at h
        split at h
        · exact (Option.some.inj h).symm
        · cases h
      · cases h
    all_goals cases h
  | record t _ =>
    intro _ _ σ v w h
    simp only [underDflt] at h
    unfold parseS at h
    split at h
    · split at h
      · unfold validated at h
        split at h
        · exact (Option.some.inj h).symm
        · cases h
      · cases h
    all_goals cases h

theorem sameV_flat (v : GVal) (hf : ∀ fs, v ≠ .agg fs) : sameV gdepth v v = true := by
  cases v with
  | scalar n => simp [gdepth, sameV]
  | nil => simp [gdepth, sameV]
  | ref l => simp [gdepth, sameV]
  | agg fs => exact absurd rfl (hf fs)

/-- the clause for every root that is not an object (they hand back the value they were given) -/
theorem ptr_same_pointer_nonobj (ps : PSchema) (hno : rootObj ps.s = false) (σ : GStore) (p : Loc) (v : GVal)
    (hp : readG σ.heap p = [(0, v)]) (hf : ∀ fs, v ≠ .agg fs) (hacc : (parsePtrP ps σ p).2.isSome = true)
    (hw : wantSame ps σ p = some true) : (parsePtrP ps σ p).2 = some (.ref p) := by
  have hk : ps.kind.ptrTyped = true := by
    unfold wantSame at hw
    split at hw
    · assumption
    · cases hw
  by_cases ht : takesPtr ps.s = true
  · unfold parsePtrP at hacc ⊢
    simp only [ht, hk, ↓reduceIte] at hacc ⊢
    cases hq : (parseS (underDflt ps.s) σ v).2 with
    | none =>
      unfold parsePtrS at hacc
      rw [hp] at hacc
      simp only [hq] at hacc
      cases hacc
    | some w =>
      have hwv := parse_keeps ps.s ht hno σ v w hq
      subst hwv
      exact own_ptr_same_pointer _ σ p w w hp hq (sameV_flat w hf)
  · unfold parsePtrP at hacc
    simp only [ht] at hacc
    cases hacc

/-! #### objects: the newly built map holds exactly the caller's entries when nothing is stripped (/repo 3302475) -/

/-- an object pass in which no key is dropped (strip mode: every key is a field of the shape) hands out the entries it was given -/
theorem fold_obj_all (mode : ObjMode) (fields : List Nat) (pk : Nat → GStore → GVal → GStore × Option GVal) :
    ∀ (es : Entries) (σ : GStore) (out : Entries), (∀ p ∈ es, mode = .strip → fields.contains p.1 = true) →
    (foldEntries (objStep mode fields pk) es σ).2 = some out → out = es := by
  intro es
  induction es with
  | nil => intro σ out _ h; simp only [foldEntries, Option.some.injEq] at h; exact h.symm
  | cons p ps ih =>
    intro σ out hk h
    unfold foldEntries at h
    split at h
    · cases h
    · next e hstep =>
      simp only at h
      cases hrest : (foldEntries (objStep mode fields pk) ps (objStep mode fields pk σ p).1).2 with
      | none => rw [hrest] at h; cases h
      | some out' =>
        rw [hrest] at h
        simp only [Option.some.injEq] at h
        have hout' := ih _ out' (fun q hq => hk q (List.mem_cons_of_mem _ hq)) hrest
        have he : e = some p := by
          unfold objStep at hstep
          split at hstep
          · simp only at hstep
            cases hpk : (pk p.1 σ p.2).2 with
            | none => rw [hpk] at hstep; cases hstep
            | some r => rw [hpk] at hstep; simp only [Option.map_some, Option.some.injEq] at hstep; exact hstep.symm
          · next hc =>
            unfold unknownStep at hstep
            cases mode with
            | strip => exact absurd (hk p (List.mem_cons_self ..) rfl) hc
            | loose => simp only [Option.some.injEq] at hstep; exact hstep.symm
            | strict => cases hstep
        subst he
        subst hout'
        exact h.symm

/-- in a cell with distinct keys, looking an entry up by its key finds that entry -/
theorem find_self : ∀ (es : Entries), (es.map (·.1)).Nodup → ∀ p ∈ es, es.find? (fun q => q.1 == p.1) = some p := by
  intro es
  induction es with
  | nil => intro _ p hp; cases hp
  | cons a es ih =>
    intro hnd p hp
    simp only [List.map_cons, List.nodup_cons] at hnd
    by_cases hap : a.1 = p.1
    · have : p = a := by
        rcases List.mem_cons.mp hp with h1 | h1
        · exact h1
        · exfalso
          apply hnd.1
          rw [hap]
          exact List.mem_map.mpr ⟨p, h1, rfl⟩
      subst this
      simp [List.find?]
    · have hp' : p ∈ es := by
        rcases List.mem_cons.mp hp with h1 | h1
        · subst h1; exact absurd rfl hap
        · exact h1
      have hne : (a.1 == p.1) = false := by simp [hap]
      simp only [List.find?_cons, hne]
      exact ih hnd.2 p hp'

/-- the pointee is a well-formed Go value: no bare aggregate; a map / slice is allocated, has distinct keys, and its entries
    hold scalars, nils or references (any-typed containers, what the class `optr` builds) -/
def PointeeOK (σ : GStore) (v : GVal) : Prop :=
  (∀ fs, v ≠ .agg fs) ∧
  ∀ l, v = .ref l → l < σ.next ∧ ((readG σ.heap l).map (·.1)).Nodup ∧ ∀ q ∈ readG σ.heap l, ∀ fs, q.2 ≠ .agg fs

/-- an object that drops no key of the caller's map answers a new map that `sameEntries` recognises -/
theorem obj_same_entries (mode : ObjMode) (fields : List Nat) (kids : Nat → GSchema) (σ : GStore) (l : Loc) (w : GVal) (n : Nat)
    (hn : n ≤ σ.next) (ho : OwnedS n σ.heap (.obj mode fields kids)) (hv : PointeeOK σ (.ref l))
    (hk : ∀ p ∈ readG σ.heap l, mode = .strip → fields.contains p.1 = true)
    (h : (parseS (.obj mode fields kids) σ (.ref l)).2 = some w) :
    sameEntriesV (parseS (.obj mode fields kids) σ (.ref l)).1.heap w (.ref l) = true := by
  obtain ⟨hl, hnd, hflat⟩ := hv.2 l rfl
  have hext := own_parse_ext (.obj mode fields kids) σ (.ref l) n hn ho
  by_cases hcond : (isMapCell (readG σ.heap l) && fields.all (fun k => (readG σ.heap l).any (fun p => p.1 == k))) = true
  · have e : parseS (.obj mode fields kids) σ (.ref l) =
        finish (foldEntries (objStep mode fields (fun k => parseS (kids k))) (readG σ.heap l) σ) := by
      unfold parseS
      simp only [hcond, ↓reduceIte]
    rw [e] at h hext ⊢
    cases hR : (foldEntries (objStep mode fields (fun k => parseS (kids k))) (readG σ.heap l) σ).2 with
    | none => simp only [finish, hR] at h; cases h
    | some out =>
      have hout := fold_obj_all mode fields (fun k => parseS (kids k)) (readG σ.heap l) σ out hk hR
      subst hout
      simp only [finish, hR, Option.some.injEq] at h hext ⊢
      subst h
      have hmap : isMapCell (readG σ.heap l) = true := by
        simp only [Bool.and_eq_true] at hcond
        exact hcond.1
      have hnew : readG (galloc (foldEntries (objStep mode fields (fun k => parseS (kids k))) (readG σ.heap l) σ).1 (readG σ.heap l)).1.heap
          (galloc (foldEntries (objStep mode fields (fun k => parseS (kids k))) (readG σ.heap l) σ).1 (readG σ.heap l)).2 = readG σ.heap l := by
        simp [galloc, readG, gupd]
      have hold : readG (galloc (foldEntries (objStep mode fields (fun k => parseS (kids k))) (readG σ.heap l) σ).1 (readG σ.heap l)).1.heap l
          = readG σ.heap l := readG_congr l (hext.2 l hl)
      simp only [sameEntriesV]
      rw [hnew, hold]
      simp only [hmap, Bool.true_and, beq_self_eq_true, List.all_eq_true]
      intro q hq
      rw [find_self _ hnd q hq]
      exact sameV_flat q.2 (hflat q hq)
  · exfalso
    have e : parseS (.obj mode fields kids) σ (.ref l) = (σ, none) := by
      unfold parseS
      simp only [hcond, Bool.false_eq_true, ↓reduceIte]
    rw [e] at h
    cases h

theorem rootObj_under : ∀ s, rootObj s = true → ∃ m f k, underDflt s = .obj m f k := by
  intro s
  induction s with
  | obj m f k _ => intro _; exact ⟨m, f, k, rfl⟩
  | dflt d t ih => intro h; exact ih h
  | any => intro h; cases h
  | str ss => intro h; cases h
  | lit rm ms => intro h; cases h
  | slice t _ => intro h; cases h
  | record t _ => intro h; cases h
  | union a b _ _ => intro h; cases h

theorem specKeeps_under (h : GHeap) (v : GVal) : ∀ s, specKeeps (underDflt s) h v = specKeeps s h v := by
  intro s
  induction s with
  | dflt d t ih => simp only [underDflt, specKeeps]; exact ih
  | any => rfl
  | str ss => rfl
  | lit rm ms => rfl
  | obj m f k _ => rfl
  | slice t _ => rfl
  | record t _ => rfl
  | union a b _ _ => rfl

/-- **ptr_same_pointer_full — the clause, full strength, for the code as it is (/repo 3302475)**: a pointer passed to a
    pointer-typed, optional or nilable schema of the language — ANY root, objects included — that accepts it, where the
    documented answer looks like what the pointer refers to (`wantSame = some true`: written from schema and pointee alone),
    comes back as the same pointer. No hypothesis about the model's answer. -/
theorem ptr_same_pointer_full (ps : PSchema) (σ : GStore) (p : Loc) (v : GVal) (n : Nat) (hn : n ≤ σ.next)
    (ho : OwnedS n σ.heap ps.s) (hp : readG σ.heap p = [(0, v)]) (hv : PointeeOK σ v)
    (hacc : (parsePtrP ps σ p).2.isSome = true) (hw : wantSame ps σ p = some true) :
    (parsePtrP ps σ p).2 = some (.ref p) := by
  by_cases hr : rootObj ps.s = true
  · have hk : ps.kind.ptrTyped = true := by
      unfold wantSame at hw
      split at hw
      · assumption
      · cases hw
    have hsk : specKeeps ps.s σ.heap v = true := by
      unfold wantSame at hw
      simp only [hk, ↓reduceIte, hp, Option.some.injEq] at hw
      exact hw
    obtain ⟨mode, fields, kids, hu⟩ := rootObj_under ps.s hr
    have ho' := ownedS_underDflt n σ.heap ps.s ho
    by_cases ht : takesPtr ps.s = true
    · unfold parsePtrP at hacc ⊢
      simp only [ht, hk, ↓reduceIte] at hacc ⊢
      rw [hu] at hacc ho' ⊢
      cases hq : (parseS (.obj mode fields kids) σ v).2 with
      | none =>
        unfold parsePtrS at hacc
        rw [hp] at hacc
        simp only [hq] at hacc
        cases hacc
      | some w =>
        cases v with
        | ref l =>
          have hsk' : specKeeps (.obj mode fields kids) σ.heap (.ref l) = true := by
            rw [← hu, specKeeps_under]; exact hsk
          have hkeys : ∀ q ∈ readG σ.heap l, mode = .strip → fields.contains q.1 = true := by
            intro q hq' hm
            subst hm
            simp only [specKeeps, List.all_eq_true] at hsk'
            exact hsk' q hq'
          exact own_ptr_same_entries _ σ p (.ref l) w hp hq
            (obj_same_entries mode fields kids σ l w n hn ho' hv hkeys hq)
        | scalar k => unfold parseS at hq; cases hq
        | nil => unfold parseS at hq; cases hq
        | agg fs => exact absurd rfl (hv.1 fs)
    · unfold parsePtrP at hacc
      simp only [ht] at hacc
      cases hacc
  · exact ptr_same_pointer_nonobj ps (by simpa using hr) σ p v hp hv.1 hacc hw

/-- cell 1 = the caller's map `{9: 7}` (nothing the schema does not know), cell 2 = the caller's variable holding it -/
def σq : GStore :=
  { heap := gupd (gupd (fun _ => none) 1 [(9, .scalar 7)]) 2 [(0, .ref 1)], next := 3 }

/-- **Witness (legacy: the code between e584c0e and 3302475, `parsePtrS0`)**: `ObjectPtr({9: any}).Parse(&m)`, `m = {9: 7}` —
    nothing to strip, the answer looks exactly like `m`, the clause demands the caller's pointer — and the answer was a pointer of
    its own (cell 4) to a new map (cell 3). The code as it is answers with the caller's pointer (cell 2). -/
theorem legacy_objptr_own_pointer :
    isRef (parsePtrS0 (.obj .strip [9] (fun _ => .any)) σq 2).2 4 = true ∧
    wantSame ⟨.pointer, .obj .strip [9] (fun _ => .any)⟩ σq 2 = some true ∧
    isRef (parsePtrP ⟨.pointer, .obj .strip [9] (fun _ => .any)⟩ σq 2).2 2 = true := by decide

/-- the hypotheses of `ptr_same_pointer_full` are met by realistic values: optional / nilable / pointer-typed objects in every
    mode, records, defaults, any — all answer with the caller's pointer; a value-typed record answers the value; a union root
    is refused -/
example :
    isRef (parsePtrP ⟨.optional, .obj .loose [9] (fun _ => .any)⟩ σq 2).2 2 = true ∧
    isRef (parsePtrP ⟨.nilable, .obj .strict [9] (fun _ => .any)⟩ σq 2).2 2 = true ∧
    isRef (parsePtrP ⟨.optional, .record (.str [7])⟩ σq 2).2 2 = true ∧
    isRef (parsePtrP ⟨.nilable, .dflt (.scalar 1) (.record .any)⟩ σq 2).2 2 = true ∧
    isRef (parsePtrP ⟨.pointer, .any⟩ σq 2).2 2 = true ∧
    isRef (parsePtrP ⟨.value, .any⟩ σq 2).2 2 = true ∧
    isRef (parsePtrP ⟨.value, .record .any⟩ σq 2).2 1 = true ∧
    (parsePtrP ⟨.pointer, .union .any .any⟩ σq 2).2.isSome = false ∧
    wantSame ⟨.optional, .obj .loose [9] (fun _ => .any)⟩ σq 2 = some true := by decide

example : PointeeOK σq (.ref 1) := by
  refine ⟨(fun fs h => by cases h), ?_⟩
  intro l hl
  cases hl
  refine ⟨by decide, by decide, ?_⟩
  intro q hq fs hh
  have hq' : q ∈ [(9, GVal.scalar 7)] := hq
  simp only [List.mem_cons, List.mem_nil_iff, or_false] at hq'
  subst hq'
  cases hh

/-- the pass over a container's entries never lowers the allocation mark -/
theorem fold_next (n : Nat) (σ : GStore) (step : GStore → Nat × GVal → StepRes)
    (hs : ∀ (σ' : GStore) (p : Nat × GVal), GExt n σ σ' → n ≤ σ'.next → GExt σ'.next σ' (step σ' p).1) (es : Entries)
    (hn : n ≤ σ.next) : σ.next ≤ (foldEntries step es σ).1.next :=
  (fold_ext n σ step hs es σ (GExt.refl _ _) hn).1

/-- an object's answer is a cell allocated by the call -/
theorem obj_builds_new : ∀ (s : GSchema), rootObj s = true → ∀ (σ : GStore) (v w : GVal) (n : Nat), n ≤ σ.next →
    OwnedS n σ.heap (underDflt s) → (parseS (underDflt s) σ v).2 = some w → ∃ x, w = .ref x ∧ σ.next ≤ x := by
  intro s
  induction s with
  | any => intro hr; cases hr
  | str ss => intro hr; cases hr
  | lit rm ms => intro hr; cases hr
  | union a b _ _ => intro hr; cases hr
  | slice t _ => intro hr; cases hr
  | record t _ => intro hr; cases hr
  | dflt d t ih => intro hr σ v w n hn ho h; exact ih hr σ v w n hn ho h
  | obj mode fields kids _ =>
    intro _ σ v w n hn ho h
    simp only [underDflt] at h ho
    unfold parseS at h
    split at h
    · next l =>
      split at h
      · have e := fold_next n σ (objStep mode fields (fun k => parseS (kids k))) (fun σ' p he hn' => by
          unfold objStep
          split
          · exact own_parse_ext (kids p.1) σ' p.2 n hn' (owned_ext n σ σ' he _ (ho p.1))
          · unfold unknownStep
            split <;> exact GExt.refl _ _) (readG σ.heap l) hn
        unfold finish at h
        split at h
        · cases h
        · simp only [Option.some.injEq] at h
          exact ⟨_, h.symm, e⟩
      · cases h
    all_goals cases h

/-- **ptr_clauses_exclusive**: whatever a Parse that left the input graph unchanged did, the caller's pointer shows afterwards
    what it showed before. So where the documented answer does not look like the pointee (`wantSame = some false`), "the same
    pointer comes back" and "the input graph is unchanged" cannot both hold: a pointer of its own is the only answer. -/
theorem ptr_clauses_exclusive (σ τ : GStore) (p : Loc) (he : GExt σ.next σ τ)
    (hb : ∀ x ∈ reach gdepth σ.heap (.ref p), x < σ.next) :
    ser gdepth τ.heap (.ref p) = ser gdepth σ.heap (.ref p) :=
  (g_graph_frame gdepth σ.next σ τ (.ref p) he hb).2

/-- **Witness (the letter of the two clauses)**: `Object({9: any}).Optional().Parse(&m)`, `m = {9: 7, 10: 7}`: the documented
    answer drops key 10 (`wantSame = some false`); the code answers with its own pointer (cell 4), the answer looks like
    `&{9: 7}`, not like what the caller's pointer shows, and the caller's pointer shows what it showed. -/
theorem ptr_letter_conflict :
    let ps : PSchema := ⟨.optional, .obj .strip [9] (fun _ => .any)⟩
    wantSame ps σp 2 = some false ∧
    isRef (parsePtrP ps σp 2).2 4 = true ∧
    ser gdepth (parsePtrP ps σp 2).1.heap (.ref 4) ≠ ser gdepth σp.heap (.ref 2) ∧
    ser gdepth (parsePtrP ps σp 2).1.heap (.ref 2) = ser gdepth σp.heap (.ref 2) := by decide

/-! ### identity is a matter of bits (round 5)

    `sameValue` decides whether the validator handed back THE value the caller's pointer refers to. A scalar leaf of the model
    is its content id, and the id of a float is the id of its BIT PATTERN (`storex.FloatRepr`: a NaN of every payload and sign
    has its own id, −0 and +0 have different ids). So `sameV` on leaves is bit-for-bit comparison, and it is REFLEXIVE on every
    value — NaN leaves, aggregates (structs / arrays held by value) holding them at any nesting the fuel covers, references:
    `sameV_refl`. That is what makes `wantSame` demand the caller's own pointer for a pointee that is, or holds, a NaN.

    `sameVBy eq` is the other way of writing it — leaves compared with the language's `==` (`reflect.Value.Equal` on everything
    Go can compare) — for an arbitrary leaf equality `eq`. Go's `==` on floats is not reflexive (NaN ≠ NaN) and not injective on
    bits (−0 == +0): the witnesses below show that such a test (i) denies that a value is itself, so that validatePointer
    answers a pointer to a private copy (`eq_variant_nan_own_pointer`), and (ii) takes two different values for one. -/

/-- the aggregates of `v` nest less deep than the fuel -/
def aggFits : Nat → GVal → Bool
  | 0, _ => false
  | f + 1, .agg fs => fs.all (fun p => aggFits f p.2)
  | _ + 1, _ => true

theorem zip_self_all {α : Type} (P : α × α → Bool) : ∀ (xs : List α), (xs.zip xs).all P = xs.all (fun x => P (x, x)) := by
  intro xs
  induction xs with
  | nil => rfl
  | cons x xs ih => simp [List.zip_cons_cons, List.all_cons, ih]

/-- **`sameValue` is reflexive on EVERY value**: scalar leaves of any content id (the id of a float is the id of its bits: NaN of
    any payload, −0, ±Inf included), nil, references, aggregates at any nesting the fuel covers. The `reflect.Value.Equal`
    variant falsifies it (`eq_variant_not_refl`). -/
theorem sameV_refl : ∀ (f : Nat) (v : GVal), aggFits f v = true → sameV f v v = true := by
  intro f
  induction f with
  | zero => intro v h; simp [aggFits] at h
  | succ f ih =>
    intro v h
    cases v with
    | scalar n => simp [sameV]
    | nil => simp [sameV]
    | ref l => simp [sameV]
    | agg fs =>
      simp only [aggFits] at h
      simp only [sameV, beq_self_eq_true, Bool.true_and]
      rw [zip_self_all]
      rw [List.all_eq_true] at h ⊢
      intro p hp
      simp [ih p.2 (h p hp)]

/-- every leaf, whatever its bits -/
theorem sameV_refl_leaf (bits : Nat) : sameV gdepth (.scalar bits) (.scalar bits) = true :=
  sameV_refl gdepth (.scalar bits) rfl

/-- a struct holding an array holding a leaf, beside a leaf behind an interface-typed member: hypotheses met by a nested value -/
example : aggFits gdepth (.agg [(0, .agg [(0, .scalar 383), (1, .scalar 60)]), (1, .scalar 718), (2, .ref 5)]) = true := by decide

/-- leaves with different bits are different values, whatever `==` says about them (−0 / +0; two NaN payloads) -/
theorem sameV_leaf_bits (a b : Nat) : sameV gdepth (.scalar a) (.scalar b) = true ↔ a = b := by
  simp [gdepth, sameV]

/-- THE CLAUSE for a pointee that is a float leaf of ANY bit pattern (NaN included), through every pointer-answering way of
    making `types.Any()`: the statement demands the caller's pointer and the code answers it. -/
theorem ptr_same_pointer_leaf (k : PKind) (hk : k.ptrTyped = true) (σ : GStore) (p : Loc) (bits : Nat)
    (hp : readG σ.heap p = [(0, .scalar bits)]) :
    wantSame ⟨k, .any⟩ σ p = some true ∧ (parsePtrP ⟨k, .any⟩ σ p).2 = some (.ref p) := by
  simp [wantSame, parsePtrP, parsePtrS, takesPtr, underDflt, specKeeps, parseS, hk, hp, sameV_refl_leaf]

/-- `sameValue` with leaves compared by an equality `eq` on content ids (`reflect.Value.Equal` for what Go can compare) -/
def sameVBy (eq : Nat → Nat → Bool) : Nat → GVal → GVal → Bool
  | 0, _, _ => false
  | _ + 1, .scalar n, .scalar m => eq n m
  | _ + 1, .nil, .nil => true
  | _ + 1, .ref l, .ref l' => l == l'
  | f + 1, .agg fs, .agg gs =>
    fs.length == gs.length && (fs.zip gs).all (fun pq => pq.1.1 == pq.2.1 && sameVBy eq f pq.1.2 pq.2.2)
  | _ + 1, _, _ => false

/-- validatePointer with that test (no `sameEntries` needed for the witness: the root is no object) -/
def parsePtrBy (eq : Nat → Nat → Bool) (s : GSchema) (σ : GStore) (p : Loc) : GStore × Option GVal :=
  match readG σ.heap p with
  | [(0, v)] =>
    match (parseS s σ v).2 with
    | none => ((parseS s σ v).1, none)
    | some w =>
      if sameVBy eq gdepth w v then ((parseS s σ v).1, some (.ref p))
      else ((galloc (parseS s σ v).1 [(0, w)]).1, some (.ref (galloc (parseS s σ v).1 [(0, w)]).2))
  | _ => (σ, none)

/-- Go's `==` on float leaves, with 383 the id of a NaN, 793 / 163 the ids of −0 / +0: NaN equals nothing, the zeros are equal -/
def goEq (n m : Nat) : Bool :=
  if n == 383 || m == 383 then false
  else if (n == 793 || n == 163) && (m == 793 || m == 163) then true
  else n == m

/-- with bit identity as the leaf equality the two definitions are the same function (the witness below is about `eq` alone) -/
theorem sameVBy_beq : ∀ (f : Nat) (v w : GVal), sameVBy (fun n m => n == m) f v w = sameV f v w := by
  intro f
  induction f with
  | zero => intro v w; rfl
  | succ f ih =>
    intro v w
    cases v <;> cases w <;> simp [sameVBy, sameV, ih]

/-- **Witness**: under `==` a value is not always itself — a NaN leaf, and a struct holding one in an array member -/
theorem eq_variant_not_refl :
    sameVBy goEq gdepth (.scalar 383) (.scalar 383) = false ∧
    sameVBy goEq gdepth (.agg [(0, .scalar 60), (1, .agg [(0, .scalar 383)])]) (.agg [(0, .scalar 60), (1, .agg [(0, .scalar 383)])]) = false ∧
    sameV gdepth (.agg [(0, .scalar 60), (1, .agg [(0, .scalar 383)])]) (.agg [(0, .scalar 60), (1, .agg [(0, .scalar 383)])]) = true := by
  decide

/-- **Witness**: under `==` two different values are one (−0 and +0); bit identity keeps them apart -/
theorem eq_variant_conflates_zeros :
    sameVBy goEq gdepth (.scalar 793) (.scalar 163) = true ∧ sameV gdepth (.scalar 793) (.scalar 163) = false := by decide

/-- cell 2 = the caller's variable holding a NaN -/
def σnan : GStore := { heap := gupd (fun _ => none) 2 [(0, .scalar 383)], next := 3 }

/-- **Witness (`sameValue` through `reflect.Value.Equal`)**: `AnyPtr().Parse(&nan)`: the statement demands the caller's pointer
    (`wantSame = some true`), the code as it is answers it (cell 2), the `==` variant answers a pointer of its own (cell 3). -/
theorem eq_variant_nan_own_pointer :
    wantSame ⟨.pointer, .any⟩ σnan 2 = some true ∧
    isRef (parsePtrP ⟨.pointer, .any⟩ σnan 2).2 2 = true ∧
    isRef (parsePtrBy goEq .any σnan 2).2 3 = true := by decide

end Gozod.C15
