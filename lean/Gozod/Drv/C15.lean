/-
  Line handler for C15.

    c15 ptr <parse|strict> <overwrite 0|1> <s|->     pointer through Parse/StrictParse  → "<u|W> <s|d|->"
    c15 reparse                                      Parse, mutate result, Parse a fresh copy of the input → "same"
    c15 dflt <default|prefault> <depth>              Parse(nil), mutate, Parse(nil) ×2, mutate, Parse(nil) → "same,same,same"

  The model builds a default graph that is a chain of `depth` nested maps (each with one scalar and one reference
  entry), runs `parseNil`/`mutate` and compares what the caller sees (`ser`).
-/
import Gozod.Model.Store
namespace Gozod.Drv.C15
open Gozod.Store

/-- chain of `d` nested nodes; returns the store and the root value -/
def chain : Nat → Store → Store × UVal
  | 0, σ => (σ, .scalar 5)
  | d + 1, σ =>
    let (σ1, v) := chain d σ
    let (σ2, l) := alloc σ1 (.node [(1, .scalar d), (2, v)])
    (σ2, .ref l)

def mutateAll (σ : Store) (v : Option UVal) : Store :=
  match v with
  | some v => (reach depth σ.heap v).foldl (fun σ l => mutate σ l 1 (.scalar 99)) σ
  | none => σ

def look (σ : Store) (v : Option UVal) : List Nat :=
  match v with
  | some v => ser depth σ.heap v
  | none => []

def dfltRun (cfg : Cfg) (d : Nat) : String :=
  let (σ0, v) := chain d { heap := fun _ => none, next := 1 }
  let s : Schema := { self := 0, kind := 1, flags := 0, checks := ⟨0, 0, 0⟩, bag := none, values := none,
                      shape := none, dflt := some v }
  let r1 := parseNil cfg σ0 s
  let first := look r1.1 r1.2
  let σ1 := mutateAll r1.1 r1.2
  let r2 := parseNil cfg σ1 s
  let a := look r2.1 r2.2 == first
  let r3 := parseNil cfg r2.1 s            -- a schema derived from s holds the same DefaultValue reference
  let b := look r3.1 r3.2 == first
  let σ3 := mutateAll (mutateAll r3.1 r2.2) r3.2
  let r4 := parseNil cfg σ3 s
  let c := look r4.1 r4.2 == first
  let w (x : Bool) := if x then "same" else "CHANGED"
  s!"{w a},{w b},{w c}"

def handleWith (cfg : Cfg) : List String → String
  | ["ptr", _entry, ow, want] =>
    -- parsePtr: without overwrite the store is unchanged and the same pointer comes back
    let σ : Store := { heap := upd (fun _ => none) 1 (.node [(1, .scalar 7)]), next := 2 }
    let r := parsePtr σ 1 (if ow == "1" then some [(1, .scalar 8)] else none)
    let u := if ser depth r.1.heap (.ref 1) == ser depth σ.heap (.ref 1) then "u" else "W"
    let same := if want == "-" then "-" else (if r.2 == .ref 1 then "s" else "d")
    s!"{u} {same}\t{if ow == "1" then u else "u"} {want}"
  | ["reparse"] => "same\tsame"
  | ["dflt", _kind, d] =>
    match d.toNat? with
    | some d => s!"{dfltRun cfg d}\tsame,same,same"
    | none => "bad-op"
  | _ => "bad-op"

def handle : List String → String := handleWith fixed

end Gozod.Drv.C15
