// Round 4c (audit H1): `c09 cpx` lines — the schema types of the complex engine path (ParseComplex / ParseComplexStrict and
// the type-local pairs of ZodFile / ZodFunction / ZodStruct) run through the Lean transcription (Model/Complex.lean,
// Model/TypeLocal.lean). The `Cpx` model is parametric in everything type-specific; a cpx line carries those parameters,
// read off the REAL schema and the REAL validator:
//
//   - the configuration: `Internals()` of the schema under test (Optional, Nilable, NonOptional, DefaultValue, DefaultFunc(),
//     PrefaultValue, PrefaultFunc(), the kinds of the checks) and whether R is a pointer (StrictParse's result type);
//   - the input as the engine sees it: untyped nil / typed nil (`isNilInput`) / a value the extractors take / a pointer the
//     pointer extractor takes / neither;
//   - the validator's answer on the input and on the prefault value: what the UNMODIFIED schema (same constructor, same
//     checks, no modifier) answers on that value — the one observation the model cannot make itself (`r.in`, `r.pv`, `r.pf`).
//
// The observation is projected (DESIGN §2.4): results with their Go shape, errors as sorted `code@path` lists (a
// non-optional error is told apart by its `expected`), no message texts. The driver predicts all six entry points through
// `TypeLocal.famSix` and the line is compared like every other line (impl = model = spec).
package main

import (
	"errors"
	"fmt"
	"reflect"
	"sort"
	"strings"

	"github.com/kaptinlin/gozod"
	"github.com/kaptinlin/gozod/core"

	"verifharness/hx"
)

// cpxFamily: how the type builds its (Parse, StrictParse) pair (the driver checks the name against the regenerated table).
var cpxFamily = map[string]string{
	"ZodSlice": "slice",
	"ZodArray": "viaParse", "ZodMap": "viaParse", "ZodObject": "viaParse", "ZodRecord": "viaParse", "ZodSet": "viaParse",
	"ZodTuple": "viaParse", "ZodUnion": "viaParse", "ZodXor": "viaParse", "ZodIntersection": "viaParse",
	"ZodFile": "file", "ZodFunction": "function", "ZodStruct": "struct",
}

// cpxPtrTakesValues: does the type's pointer extractor also accept a T (types/*.go: extractPtrForEngine & co.)?
var cpxPtrTakesValues = map[string]bool{
	"ZodSlice": true, "ZodArray": true, "ZodMap": true, "ZodObject": true, "ZodRecord": false, "ZodSet": true, "ZodTuple": true,
	"ZodUnion": true, "ZodXor": true, "ZodIntersection": true, "ZodFile": true, "ZodFunction": false, "ZodStruct": true,
}

const bothSep = "\x1f"

// renderProj: the property-relevant projection of a result.
func renderProj(res any, err error) string {
	if err != nil {
		var ze *gozod.ZodError
		if !errors.As(err, &ze) {
			return "err:?notzod"
		}
		var parts []string
		for _, is := range ze.Issues {
			p := fmt.Sprintf("%s@%v", is.Code, is.Path)
			if is.Code == core.InvalidType && is.Expected == "nonoptional" {
				p += ":nonoptional"
			}
			parts = append(parts, p)
		}
		sort.Strings(parts)
		return "err:" + strings.ReplaceAll(strings.ReplaceAll(strings.ReplaceAll(strings.Join(parts, ","), " ", "_"), ";", ","), "=", "≈")
	}
	return renderGen(res, nil)
}

func renderBoth(res any, err error) string {
	return renderGen(res, err) + bothSep + renderProj(res, err)
}

// splitBoth: an observation made with renderBoth -> (full, projected).
func splitBoth(obs string) (string, string) {
	var full, proj []string
	for _, f := range strings.Split(obs, ";") {
		k, v, ok := strings.Cut(f, "=")
		if !ok {
			full, proj = append(full, f), append(proj, f)
			continue
		}
		a, b, both := strings.Cut(v, bothSep)
		if !both {
			full, proj = append(full, f), append(proj, f)
			continue
		}
		tag := ""
		if i := strings.Index(b, "~as:"); i >= 0 {
			tag = b[i:]
		}
		full = append(full, k+"="+a+tag)
		proj = append(proj, k+"="+b)
	}
	return strings.Join(full, ";"), strings.Join(proj, ";")
}

func internalsOf(schema any) *core.ZodTypeInternals {
	m := reflect.ValueOf(schema).MethodByName("Internals")
	if !m.IsValid() || m.Type().NumIn() != 0 || m.Type().NumOut() != 1 {
		return nil
	}
	in, _ := m.Call(nil)[0].Interface().(*core.ZodTypeInternals)
	return in
}

// valTok: a value the way renderGen shows it as a result: `&` in front when the value itself is a non-nil Go pointer
// (a file is a *multipart.FileHeader), then its canonical text with every pointer followed.
func valTok(v any) string {
	shape := ""
	if rv := reflect.ValueOf(v); rv.IsValid() && rv.Kind() == reflect.Pointer && !rv.IsNil() {
		shape = "&"
	}
	return shape + strings.ReplaceAll(canon(v), "=", "≈")
}

func vtok(v any) string {
	if v == nil {
		return "-"
	}
	return "v:" + valTok(v)
}

func isNilLike(v reflect.Value) bool {
	if !v.IsValid() {
		return true
	}
	if v.Kind() == reflect.Interface {
		if v.IsNil() {
			return true
		}
		v = v.Elem()
	}
	switch v.Kind() {
	case reflect.Pointer, reflect.Slice, reflect.Map, reflect.Chan, reflect.Func, reflect.Interface:
		return v.IsNil()
	}
	return false
}

// oracle: what the type's validator makes of x — the unmodified schema's projected answer.
func oracle(base any, x reflect.Value) string {
	var out string
	pm := hx.Safely(func() {
		m := reflect.ValueOf(base).MethodByName("Parse")
		res := m.Call([]reflect.Value{freshArg(x)})
		var err error
		if !res[1].IsNil() {
			err = res[1].Interface().(error)
		}
		if err != nil {
			out = renderProj(nil, err) + errTypeTag(err)
			return
		}
		// the validator's value: the result without the pointer of the base schema's R (and without the *any a
		// ZodFunction's Parse hands back for a *any input)
		rv := res[0]
		r0 := m.Type().Out(0)
		if rv.Kind() == reflect.Interface && !rv.IsNil() {
			rv = rv.Elem()
		}
		if rv.Kind() == reflect.Pointer && (r0.Kind() == reflect.Pointer || rv.Type() == reflect.PointerTo(anyT)) {
			if rv.IsNil() {
				out = "ok:nil"
				return
			}
			rv = rv.Elem()
		}
		if isNilLike(rv) {
			out = "ok:nil"
			return
		}
		out = "ok:" + valTok(rv.Interface())
	})
	if pm != "" {
		return "panic:" + strings.ReplaceAll(pm, " ", "_")
	}
	return out
}

// cpxLine: the op line and the projected observation of one (schema, input) case; ok=false when the schema is not of a
// complex-path type or the case cannot be described (the ordinary gen / ill line stands alone then).
func cpxLine(tag string, applied []string, base, schema any, in reflect.Value, inTok string, proj string) (string, bool) {
	gt := goTypeOf(schema)
	fam, ok := cpxFamily[gt]
	if !ok || base == nil || goTypeOf(base) != gt {
		return "", false
	}
	it := internalsOf(schema)
	sm := reflect.ValueOf(schema).MethodByName("StrictParse")
	if it == nil || !sm.IsValid() {
		return "", false
	}
	if it.Transform != nil {
		return "", false
	}
	rT := sm.Type().Out(0)
	want := sm.Type().In(0)
	// the engine's T: R without its pointer (ZodFunction[T]: the engine runs on `any`, R = T = any or *any)
	eT := rT
	ps := rT.Kind() == reflect.Pointer
	if ps {
		eT = rT.Elem()
	}
	var checks strings.Builder
	for _, c := range it.Checks {
		k := "p"
		if c != nil {
			if ci := c.Zod(); ci != nil && ci.Def != nil && ci.Def.Check == "overwrite" {
				k = "o"
			}
		}
		checks.WriteString(k)
	}
	if checks.Len() == 0 {
		checks.WriteString("-")
	}
	kv := []string{"ps=" + hx.B01(ps), "ptv=" + hx.B01(cpxPtrTakesValues[gt]), "opt=" + hx.B01(it.Optional), "nil=" + hx.B01(it.Nilable),
		"nonopt=" + hx.B01(it.NonOptional), "checks=" + checks.String()}
	var df, pf any
	if pm := hx.Safely(func() {
		if it.DefaultFunc != nil {
			df = it.DefaultFunc()
		}
		if it.PrefaultFunc != nil {
			pf = it.PrefaultFunc()
		}
	}); pm != "" {
		return "", false
	}
	if (it.DefaultFunc != nil && df == nil) || (it.PrefaultFunc != nil && pf == nil) {
		return "", false // a func handing out nil: not modelled (notes/C09.md)
	}
	kv = append(kv, "dv="+vtok(it.DefaultValue), "df="+vtok(df), "pv="+vtok(it.PrefaultValue), "pf="+vtok(pf))
	rpv, rpf := "-", "-"
	if it.PrefaultValue != nil {
		rpv = oracle(base, anyOf(it.PrefaultValue))
		kv = append(kv, "self.pv="+vtok(it.PrefaultValue))
	}
	if pf != nil {
		rpf = oracle(base, anyOf(pf))
		kv = append(kv, "self.pf="+vtok(pf))
	}
	// the input as the engine sees it
	strict := in.IsValid() && (in.Type() == want || (in.Kind() == reflect.Interface && !in.IsNil() && in.Elem().Type() == want))
	kind, rin := "", "-"
	x := in
	if x.IsValid() && x.Kind() == reflect.Interface && !x.IsNil() {
		x = x.Elem()
	}
	switch {
	case !in.IsValid() || (in.Kind() == reflect.Interface && in.IsNil()):
		kind = "nil"
	case isNilLike(in):
		kind = "nilx"
	case gt == "ZodFunction":
		// extractFunctionPtr takes a non-nil *any that holds a func; extractFunction a func; nothing else
		if p, ok := x.Interface().(*any); ok {
			if *p != nil && reflect.ValueOf(*p).Kind() == reflect.Func {
				kind = "ptr"
			} else {
				kind = "ill"
			}
		} else if x.Kind() == reflect.Func {
			kind = "val"
		} else {
			kind = "ill"
		}
	case x.Kind() == reflect.Pointer && x.Type().Elem() == eT && eT.Kind() != reflect.Interface:
		kind = "ptr"
	default:
		// a T, or anything else the extractors may or may not take: the validator's answer (below) carries their verdict
		kind = "val"
	}
	if kind == "val" || kind == "ptr" {
		rin = oracle(base, in)
		if kind == "ptr" && x.Kind() == reflect.Pointer && gt != "ZodFunction" {
			kv = append(kv, "self.in="+vtok(x.Elem().Interface()))
		} else if kind == "ptr" {
			kv = append(kv, "self.in="+vtok(*(x.Interface().(*any))))
		} else {
			kv = append(kv, "self.in="+vtok(x.Interface()))
		}
	}
	if kind == "nil" || kind == "nilx" {
		for _, a := range applied {
			if strings.Contains(a, "owfill") {
				// a nil-filling Overwrite: what the type's wrapper makes of nil is type-specific (`checksOnNil` is instantiated
				// as "nil stays nil"); the gen line judges the case
				return "", false
			}
		}
	}
	if gt == "ZodFunction" && (kind == "nil" || kind == "nilx") && strings.Contains(checks.String(), "o") {
		// ZodFunction's Overwrite wrapper turns an accepted nil into a typed nil *any (`checksOnNil` is not nil there), and
		// convertResult wraps that into a non-nil pointer to a typed nil - a shape `Cpx.Res` cannot express. The region is
		// judged by the gen line of the same case (known finding function:…:S=nil).
		return "", false
	}
	for _, r := range []string{rin, rpv, rpf} {
		if strings.HasPrefix(r, "panic:") {
			return "", false
		}
	}
	kv = append(kv, "strict="+hx.B01(strict), "in="+kind, "r.in="+rin, "r.pv="+rpv, "r.pf="+rpf)
	op := fmt.Sprintf("c09 cpx %s %s %s | %s #%s %s", fam, gt, strings.Join(kv, " "), inTok, tag, strings.Join(applied, " "))
	return op, true
}

// emitCase: one (schema, input) case — the ordinary line (`kind` = gen / ill: the six entry points compared with each other on
// the full rendering) and, for a complex-path type, the cpx line (the six entry points predicted by the Lean model).
func emitCase(o *hx.Out, kind, tag string, applied []string, base, schema any, in reflect.Value, inTok string) string {
	full, proj := splitBoth(callAll(schema, in, renderBoth))
	o.Emit(fmt.Sprintf("c09 %s %s %s | %s #%s", kind, tag, strings.Join(applied, " "), inTok, tag), full)
	if op, ok := cpxLine(tag, applied, base, schema, in, inTok, proj); ok {
		o.Emit(op, proj)
		o.Count("cpx:" + tag)
		o.Count("cpx-fam:" + cpxFamily[goTypeOf(schema)])
		for _, f := range strings.Fields(op) {
			if strings.HasPrefix(f, "in=") {
				o.Count("cpx-" + f)
			}
		}
	}
	return full
}

// runCpxDirected: the directed run of the complex path. Every family of a complex-path type (value and pointer constructors
// of gentries / gentries2 — the generic constructors Slice[T], Struct[T], Record[K, V], … the zero-argument registry cannot
// hold) in the variants own-checks / plain + identity Overwrite, under EVERY modifier history of length <= 2 over the eight
// modifiers (73), on the boundary inputs the engine tells apart: each sample as T, behind a pointer, the typed nil pointer, the
// nil of R, untyped nil, and three foreign values. Every case is a gen / ill line and a cpx line.
func runCpxDirected(o *hx.Out, r *hx.Rng, thorough bool) {
	all := append(gentries(), gentries2()...)
	hists := allHistories()
	foreign := []any{42, "str", struct{ X int }{3}}
	for ei := range all {
		e := &all[ei]
		var gt string
		hx.Safely(func() { gt = goTypeOf(e.plain()) })
		if _, ok := cpxFamily[gt]; !ok {
			continue
		}
		variants := []string{"checked", "plain+ow"}
		if thorough {
			variants = []string{"checked", "plain", "refined", "plain+ow", "checked+ow"}
		}
		for _, variant := range variants {
			for _, h := range hists {
				var schema, base any
				applied := []string{"cpxdir", variant}
				pm := hx.Safely(func() {
					schema = buildVariant(e, strings.TrimSuffix(variant, "+ow"))
					if schema != nil && strings.HasSuffix(variant, "+ow") {
						if s2, ok := applyStep(schema, step{"Overwrite", 0}, e.dflt, nil); ok {
							schema = s2
						} else {
							applied[1] = strings.TrimSuffix(variant, "+ow")
						}
					}
					base = schema
					for k, m := range h {
						if schema == nil {
							break
						}
						if s2, ok := applyStep(schema, step{m, k}, e.dflt, nil); ok {
							schema = s2
							applied = append(applied, m)
						}
					}
				})
				if pm != "" || schema == nil {
					continue
				}
				sm := reflect.ValueOf(schema).MethodByName("StrictParse")
				if !sm.IsValid() {
					continue
				}
				want := sm.Type().In(0)
				eT := sm.Type().Out(0)
				if eT.Kind() == reflect.Pointer {
					eT = eT.Elem()
				}
				lbl := func(t reflect.Type) string {
					if t == want || want.Kind() == reflect.Interface {
						return "gen"
					}
					return "ill"
				}
				emit := func(kind, class string, in reflect.Value, tok string) {
					emitCase(o, kind, e.name, applied, base, schema, in, tok)
					o.Count("cpxdir:" + e.name)
					o.Count("cpxdir-input:" + class)
					o.Count(fmt.Sprintf("cpxdir-history-len:%d", len(applied)-2))
					o.Count("cpxdir-variant:" + applied[1])
					o.Count("gotype:" + gt)
				}
				samples := e.ins
				if len(samples) > 3 && !thorough {
					samples = samples[:3]
				}
				for _, x := range samples {
					if v, ok := conv(x, want); ok {
						emit("gen", "sample-as-strict-input", v, canon(x))
					} else {
						emit(lbl(reflect.TypeOf(x)), "sample-as-itself", anyOf(x), tokOf(x))
					}
					if eT.Kind() != reflect.Interface {
						if v, ok := conv(x, eT); ok && reflect.PointerTo(eT) != want {
							p := reflect.New(eT)
							p.Elem().Set(v)
							emit(lbl(p.Type()), "pointer-to-sample", anyOf(p.Interface()), "&"+canon(x))
						}
					}
				}
				if eT.Kind() != reflect.Interface {
					pT := reflect.PointerTo(eT)
					emit(lbl(pT), "typed-nil-pointer", anyOf(reflect.Zero(pT).Interface()), "nilptr:"+strings.ReplaceAll(pT.String(), " ", ""))
				}
				switch want.Kind() {
				case reflect.Map, reflect.Slice, reflect.Func:
					emit("gen", "nil-of-R", reflect.Zero(want), "nil-of-R")
				}
				emit(lbl(nil), "untyped-nil", anyOf(nil), "nil")
				for _, x := range foreign {
					if reflect.TypeOf(x) != want {
						emit(lbl(reflect.TypeOf(x)), "foreign", anyOf(x), tokOf(x))
					}
				}
			}
		}
	}
}
