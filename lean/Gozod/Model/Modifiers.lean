/-
  Gozod.Model.Modifiers — nil handling: `internal/engine/modifiers.go:processModifiersCore`,
  the `handled` branches of `ParsePrimitive`/`ParseComplex` (parser.go:23-72, 109-145) and the
  modifier methods (`Optional/Nilable/Nullish/NonOptional/Default/DefaultFunc/Prefault/
  PrefaultFunc`) as each type implements them on `core.ZodTypeInternals` (interfaces.go:160-217).

  Values are abstract here: a default / prefault argument is characterised by whether it
  satisfies the schema's own checks (`valid`), because that is all the nil outcome depends on.
  Two further schema features matter because today's code consults them on the nil path:
  * an *overwrite* check (`Trim`, `Overwrite(f)`): `processModifiersCore` then runs **all** checks
    on the default value (modifiers.go:55-58);
  * *refine* checks: for Optional/Nilable schemas `filterNilChecks` runs overwrite/refine/custom
    checks on the nil value (modifiers.go:80-85); whether a refine wrapper accepts nil is fixed
    when it is attached (string: the receiver's type was already `*string`; integer/float/bool:
    the receiver was already Nilable — types/string.go:414, types/integer.go:447).
-/
namespace Gozod.Mods

/-- Modifier (and check-attaching) calls of a derivation history. -/
inductive Op where
  | optional | nilable | nullish | nonOptional
  | dflt (valid : Bool) | dfltFn (valid : Bool)
  | prefault (valid : Bool) | prefaultFn (valid : Bool)
  | overwrite            -- attach an (identity) overwrite check
  | refine               -- attach an always-true refinement
  deriving DecidableEq, Repr

/-- How a type's `Refine` wrapper decides about a nil payload at attachment time. -/
inductive RefineRule where
  | ptrTy        -- string: accepts nil iff the receiver's constraint type is already a pointer
  | nilableFlag  -- integer/float/bool: accepts nil iff the receiver is already Nilable
  deriving DecidableEq, Repr

structure I where
  optional : Bool := false
  nilable : Bool := false
  nonOptional : Bool := false
  dv : Option Bool := none       -- DefaultValue (some valid?)
  df : Option Bool := none       -- DefaultFunc
  pv : Option Bool := none       -- PrefaultValue
  pf : Option Bool := none       -- PrefaultFunc
  hasOverwrite : Bool := false
  refines : List Bool := []      -- per attached refine: does its wrapper accept nil?
  ptrTy : Bool := false          -- constraint type is a pointer (`String().Optional()` is a ZodString[*string])
  typedNilFromOw : Bool := false -- an overwrite attached to a `*string` schema turns the nil payload into a typed
                                 -- nil pointer, which every later refine wrapper rejects (types/string.go:553,414)
  deriving DecidableEq, Repr

def apply (rule : RefineRule) (i : I) : Op → I
  | .optional => { i with optional := true, ptrTy := true }
  | .nilable => { i with nilable := true, ptrTy := true }
  | .nullish => { i with optional := true, nilable := true, ptrTy := true }
  | .nonOptional => { i with optional := false, nonOptional := true, ptrTy := false }
  | .dflt v => { i with dv := some v }
  | .dfltFn v => { i with df := some v }
  | .prefault v => { i with pv := some v }
  | .prefaultFn v => { i with pf := some v }
  | .overwrite => { i with hasOverwrite := true,
                            typedNilFromOw := i.typedNilFromOw || (match rule with | .ptrTy => i.ptrTy | .nilableFlag => false) }
  | .refine => { i with refines := i.refines ++
      [match rule with | .ptrTy => i.ptrTy && !i.typedNilFromOw | .nilableFlag => i.nilable] }

def applyAll (rule : RefineRule) (i : I) (h : List Op) : I := h.foldl (apply rule) i

/-- What `Parse(nil)` / `Parse((*T)(nil))` yields, as a class. -/
inductive Outcome where
  | dflt (fromFunc : Bool)       -- the default value, unchecked (DefaultValue / DefaultFunc)
  | prefaultOk (fromFunc : Bool) -- the prefault value, having passed the full pipeline
  | checkError                   -- issues from the schema's own checks (on a default / prefault value)
  | nonOptional                  -- the "nonoptional" error
  | nil                          -- nil is returned
  | typeError                    -- invalid_type
  | refineError                  -- a refinement reported an issue on the nil value
  deriving DecidableEq, Repr

/-- `processModifiersCore` + the handled branches of `ParsePrimitive`/`ParseComplex`, on a nil
    input, for a schema whose base Go type is not a pointer (`isPtr = false`).
    `admitsNil`: the type code is `unknown` (modifiers.go:89). -/
def nilOutcome (admitsNil : Bool) (i : I) : Outcome :=
  match i.dv, i.df with
  | some valid, _ =>                                   -- resolveDefault: DefaultValue first
    if i.hasOverwrite && !valid then .checkError else .dflt false
  | none, some valid =>
    if i.hasOverwrite && !valid then .checkError else .dflt true
  | none, none =>
    match i.pv, i.pf with
    | some valid, _ => if valid then .prefaultOk false else .checkError
    | none, some valid => if valid then .prefaultOk true else .checkError
    | none, none =>
      if i.nonOptional then .nonOptional
      else if i.optional || i.nilable then
        (if i.refines.all id then .nil else .refineError)   -- filterNilChecks: refinements run on nil
      else if admitsNil then .nil
      else .typeError

/-! ### The documented meaning, computed from the history alone -/

def isDefaultOp : Op → Bool
  | .dflt _ | .dfltFn _ => true
  | _ => false
def isPrefaultOp : Op → Bool
  | .prefault _ | .prefaultFn _ => true
  | _ => false
def isNonOptionalOp : Op → Bool
  | .nonOptional => true
  | _ => false
def isCheckOp : Op → Bool
  | .overwrite | .refine => true
  | _ => false
def isOptionalOp : Op → Bool
  | .optional | .nilable | .nullish => true
  | _ => false

/-- Last default of each kind in the history. -/
def lastDv : List Op → Option Bool
  | [] => none
  | .dflt v :: r => (lastDv r).orElse fun _ => some v
  | _ :: r => lastDv r
def lastDf : List Op → Option Bool
  | [] => none
  | .dfltFn v :: r => (lastDf r).orElse fun _ => some v
  | _ :: r => lastDf r
def lastPv : List Op → Option Bool
  | [] => none
  | .prefault v :: r => (lastPv r).orElse fun _ => some v
  | _ :: r => lastPv r
def lastPf : List Op → Option Bool
  | [] => none
  | .prefaultFn v :: r => (lastPf r).orElse fun _ => some v
  | _ :: r => lastPf r

/-- The statement's outcome for a nil input after history `h` — as a *set* of admissible
    outcomes when both a value default and a function default (or both prefault kinds) were set:
    the statement does not rank them, so either is accepted (lenient reading, DESIGN §3.6). -/
def specNil (admitsNil : Bool) (h : List Op) (o : Outcome) : Bool :=
  if h.any isDefaultOp then
    (match o with
     | .dflt false => (lastDv h).isSome
     | .dflt true => (lastDf h).isSome
     | _ => false)
  else if h.any isPrefaultOp then
    (match o with
     | .prefaultOk false => lastPv h == some true
     | .prefaultOk true => lastPf h == some true
     | .checkError => lastPv h == some false || lastPf h == some false
     | _ => false)
  else if h.any isNonOptionalOp then o == .nonOptional
  else if h.any isOptionalOp then o == .nil
  else if admitsNil then o == .nil
  else o == .typeError

end Gozod.Mods
