/-
  Line handlers for C06.
    cell <fty> <rule[+rule]> <probe>   → "<model> <spec>"  model: Mean.Code.accepts (∀-value transcription of the rule
                                          loop) on the parsed tag text and the probe's value; spec: Tags.Spec.accept
    tag <rune>*                        → "<model>\t-"       rendering of parseTag (fixed code) + ws flag
    tablesum                           → "<counts of Gen.tagTable>\t-"
    stype <fty>                        → "<schema type of the field type in the static table Gen.tagFacts>\t-"
                                          ("-" for the field types no rule switch applies to)
    genv <root>                        → "<type graph of the row in Gen.graphTable>\t-"
    gbuild <root>                      → "<model: does FromStruct return>\tbuilt"
    graph <root> <how> <value tokens>  → "<Graph.Code.check>\t<Graph.Spec.vStruct>"
    hist <family> <order> <pos> T <tag runes> P <probe runes>
                                       → "<Rules.Code.accepts tag probe>\t<Rules.Spec.accepts tag probe>"
                                          (a function of the tag alone: the history plays no role)
-/
import Gozod.Model.TagParser
import Gozod.Model.Tags
import Gozod.Gen.TagTable
import Gozod.Model.TagGraph
import Gozod.Model.TagRules
import Gozod.Model.TagSwitch
import Gozod.Model.TagMeaningProbe
import Gozod.Gen.TagSwitches
import Gozod.Gen.TagGraph
namespace Gozod.Drv.C06
open Gozod Gozod.Tags

def b2s (b : Bool) : String := if b then "1" else "0"

def parseRules (s : String) : Option (List TRule) :=
  (s.splitOn "+").mapM TRule.ofString?

def renderStr (s : TagParser.Str) : String := ".".intercalate (s.map toString)

def renderRule (r : TagParser.Rule) : String :=
  "n" ++ renderStr r.name ++
    (match r.params with
     | none => "!"
     | some ps => String.join (ps.map (fun p => ";p" ++ renderStr p)))

def renderRules (rs : List TagParser.Rule) : String := "ok:" ++ "|".intercalate (rs.map renderRule)

def padL : TagParser.Str := [0x20, 0x09]
def padR : TagParser.Str := [0x0A, 0x20]

def isSimple (t : TagParser.Str) : Bool :=
  t.all fun c => !(c == 0x27 || c == 0x22 || c == 0x5C || c == 0x5B || c == 0x5D || c == 0x7B || c == 0x7D)

def splitComma : TagParser.Str → TagParser.Str → List TagParser.Str
  | [], cur => [cur]
  | c :: rest, cur => if c == 0x2C then cur :: splitComma rest [] else splitComma rest (cur ++ [c])

def padEq : TagParser.Str → TagParser.Str
  | [] => []
  | c :: rest => if c == 0x3D then [0xA0, 0x3D, 0x0A] ++ rest else c :: padEq rest

/-- the harness's `innerPad`: whitespace around every rule and around its first `=` -/
def innerPad (t : TagParser.Str) : TagParser.Str :=
  [0x2C].intercalate ((splitComma t []).map fun p => [0x09] ++ padEq p ++ [0x2003])

def tagObs (legacy : Bool) (t : TagParser.Str) : String :=
  match TagParser.parseTag legacy t with
  | .error _ => "panic"
  | .ok rs =>
    let same (t' : TagParser.Str) : Bool := match TagParser.parseTag legacy t' with
      | .ok rs' => decide (rs' = rs)
      | .error _ => false
    let ws := same (padL ++ t ++ padR) && (!isSimple t || same (innerPad t))
    renderRules rs ++ " ws=" ++ b2s ws

def tableSum : String :=
  let cells := Gen.tagTable.foldl (fun n b => n + b.singles.length + 2 * b.pairs.length) 0
  let cnt (l : List Bool) : Nat := (l.filter id).length
  let obs := Gen.tagTable.foldl (fun n b =>
    n + b.singles.foldl (fun m s => m + s.2.length) 0 + b.pairs.foldl (fun m p => m + p.2.2.1.length + p.2.2.2.length) 0) 0
  let acc := Gen.tagTable.foldl (fun n b =>
    n + b.singles.foldl (fun m s => m + cnt s.2) 0 + b.pairs.foldl (fun m p => m + cnt p.2.2.1 + cnt p.2.2.2) 0) 0
  s!"blocks={Gen.tagTable.length} cells={cells} obs={obs} accepts={acc}"

def findRow (name : String) : Option Graph.GRow := Gen.graphTable.find? (·.name == name)

def handle : List String → String
  | ["genv", root] =>
    match findRow root with
    | some r => Graph.envToken r.env ++ "\t-"
    | none => "no-such-root\t-"
  | ["gbuild", root] =>
    match findRow root with
    | some r => (if Graph.Code.builds r.env then "built" else "crash:stack-overflow") ++ "\tbuilt"
    | none => "no-such-root\tbuilt"
  | "hist" :: _fam :: _order :: _pos :: "T" :: rest =>
    let tagToks := rest.takeWhile (· != "P")
    let probeToks := (rest.dropWhile (· != "P")).drop 1
    match tagToks.mapM String.toNat?, probeToks.mapM String.toNat? with
    | some tag, some v => b2s (Rules.Code.accepts tag v) ++ "\t" ++ b2s (Rules.Spec.accepts tag v)
    | _, _ => "bad-op"
  | "graphagain" :: root :: _how :: toks =>       -- the same value after every other root was built: the history plays no role
    match findRow root, Graph.readVal (toks.length + 1) toks with
    | some r, some (v, []) => b2s (Graph.Code.check r.env v) ++ "\t" ++ b2s (Graph.Spec.vStruct r.env 0 v)
    | _, _ => "bad-op"
  | "graph" :: root :: _how :: toks =>
    match findRow root, Graph.readVal (toks.length + 1) toks with
    | some r, some (v, []) => b2s (Graph.Code.check r.env v) ++ "\t" ++ b2s (Graph.Spec.vStruct r.env 0 v)
    | _, _ => "bad-op"
  | ["cell", fty, rules, probe] =>
    -- model: the ∀-value transcription `Mean.Code.accepts` on the REAL tag text (rule tokens joined by commas,
    -- parsed by the tag-parser model) and the probe's value; spec: the round-1 oracle `Tags.Spec.accept`
    match parseRules rules, Probe.ofString? probe, FTy.ofString? fty with
    | some rs, some p, some t =>
      let tag : TagParser.Str := (rules.toList.map fun c => if c == '+' then 0x2C else c.toNat)
      let m := Mean.Code.accepts Mean.probeLang (Mean.kindOf t) (Rules.rulesOf tag) (Mean.valOf t p)
      s!"{b2s m} {b2s (Spec.accept rs p)}"
    | _, _, _ => "bad-op"
  | "tag" :: runes =>
    match runes.mapM String.toNat? with
    | some t => tagObs false t ++ "\t-"
    | none => "bad-op"
  | ["tablesum"] => tableSum ++ "\t-"
  | ["stype", fty] =>
    match FTy.ofString? fty with
    | some t => Sw.tyString Gen.tagFacts t ++ "\t-"
    | none => "bad-op"
  | _ => "bad-op"

end Gozod.Drv.C06
