/-
  C07: the emitted document satisfies the metaschema constraints on keyword values (`xwfJS`, Model/JsonSchemaWf.lean):
  `c07_wellformed_values : reprP true s → keysOK s → xwfJS (toDoc s)`.
-/
import Gozod.Proofs.C07
import Gozod.Model.JsonSchemaWf
namespace Gozod.C07
open Gozod.Jsc

theorem xwfKws_ofList (l : List Kw) : xwfKws (KwList.ofList l) = l.all xwfKw := by
  induction l with
  | nil => rfl
  | cons k ks ih => simp [KwList.ofList, xwfKws, ih]

theorem xwf_optKw {α} (o : Option α) (f : α → Kw) (h : ∀ a, xwfKw (f a) = true) : (optKw o f).all xwfKw = true := by
  cases o <;> simp [optKw, h]

theorem xwf_patKws (ps : List Pat) : (patKws ps).all xwfKw = true := by
  match ps with
  | [] => simp [patKws]
  | [p] => simp [patKws, xwfKw]
  | p :: q :: rest =>
    simp only [patKws, List.all_cons, List.all_nil, Bool.and_true, xwfKw, Bool.and_eq_true, decide_eq_true_eq]
    constructor
    · generalize (p :: q :: rest) = l
      induction l with
      | nil => rfl
      | cons a l ih => simp [List.foldr, xwfList, xwfJS, xwfKws, xwfKw, ih]
    · simp [List.foldr, JSList.length]

/-- the Bag's `multipleOf` is positive when every MultipleOf check was (`NumBag.stepOK`). -/
theorem mul_pos_fold : (cks : List NumCk) → (b : NumBag) → (∀ v, b.mul = some v → 0 < v) → numFoldOK b cks = true →
    ∀ v, (cks.foldl NumBag.step b).mul = some v → 0 < v
  | [], b, hb, _ => by simpa using hb
  | c :: cs, b, hb, h => by
    simp only [numFoldOK, Bool.and_eq_true] at h
    simp only [List.foldl_cons]
    apply mul_pos_fold cs (b.step c) _ h.2
    intro v hv
    cases c with
    | mul w =>
      simp only [NumBag.step] at hv
      have := h.1; simp only [NumBag.stepOK, Bool.and_eq_true, decide_eq_true_eq] at this
      cases hv; exact this.2
    | gt w => exact hb v (by simpa [NumBag.step] using hv)
    | gte w => exact hb v (by simpa [NumBag.step] using hv)
    | lt w => exact hb v (by simpa [NumBag.step] using hv)
    | lte w => exact hb v (by simpa [NumBag.step] using hv)

theorem xwf_numKws (u : Int) (hu : 0 < u) (cks : List NumCk) (top : Bool) (d : Int × Int) (h : numFoldOK {} cks = true) :
    (numKws u cks top d).all xwfKw = true := by
  have hm := mul_pos_fold cks {} (by intro v hv; simp at hv) h
  unfold numKws
  simp only [List.all_append, Bool.and_eq_true]
  refine ⟨⟨⟨⟨⟨?_, ?_⟩, ?_⟩, ?_⟩, ?_⟩, ?_⟩
  · split <;> simp [xwfKw]
  · exact xwf_optKw _ _ (by simp [xwfKw])
  · exact xwf_optKw _ _ (by simp [xwfKw])
  · exact xwf_optKw _ _ (by simp [xwfKw])
  · exact xwf_optKw _ _ (by simp [xwfKw])
  · cases hmul : (numBag cks).mul with
    | none => simp [optKw]
    | some v =>
      have := hm v (by simpa [numBag] using hmul)
      simp only [optKw, List.all_cons, List.all_nil, Bool.and_true, xwfKw, decide_eq_true_eq]
      exact Int.mul_pos hu this

theorem contains_requiredKeys (k : Str) : (sh : Shape) → (requiredKeys sh).contains k = true → sh.keys.contains k = true
  | .nil, h => by simp [requiredKeys] at h
  | .cons k' s rest, h => by
    simp only [requiredKeys] at h
    simp only [Shape.keys, List.contains_cons, Bool.or_eq_true]
    split at h
    · exact Or.inr (contains_requiredKeys k rest h)
    · simp only [List.contains_cons, Bool.or_eq_true] at h
      rcases h with h | h
      · exact Or.inl h
      · exact Or.inr (contains_requiredKeys k rest h)

theorem nodup_requiredKeys : (sh : Shape) → nodupStr sh.keys = true → nodupStr (requiredKeys sh) = true
  | .nil, _ => rfl
  | .cons k s rest, h => by
    simp only [Shape.keys, nodupStr, Bool.and_eq_true, Bool.not_eq_true'] at h
    simp only [requiredKeys]
    split
    · exact nodup_requiredKeys rest h.2
    · simp only [nodupStr, Bool.and_eq_true, Bool.not_eq_true']
      refine ⟨?_, nodup_requiredKeys rest h.2⟩
      cases hc : (requiredKeys rest).contains k with
      | false => rfl
      | true => have := contains_requiredKeys k rest hc; rw [h.1] at this; cases this

theorem nodup_reqKeysP (part : Bool) (sh : Shape) (h : nodupStr sh.keys = true) : nodupStr (reqKeysP part sh) = true := by
  cases part
  · exact nodup_requiredKeys sh h
  · rfl

mutual
theorem xwf : (s : S) → (top o n : Bool) → reprP top s = true → keysOK s = true → xwfJS (toJS top o n s) = true
  | .str cks, _, _, _, _, _ => by
    simp only [toJS, xwfJS, xwfKws_ofList, strKws, List.all_append, Bool.and_eq_true]
    exact ⟨⟨⟨by simp [xwfKw], xwf_patKws _⟩, xwf_optKw _ _ (by simp [xwfKw])⟩, xwf_optKw _ _ (by simp [xwfKw])⟩
  | .int k cks, top, _, _, h, _ => by
    simp only [reprP, Bool.and_eq_true] at h
    simp [toJS, xwfJS, xwfKws_ofList, xwfKw, xwf_numKws 4 (by decide) cks top _ h.2]
  | .flt cks, top, _, _, h, _ => by
    simp only [reprP] at h
    simp [toJS, xwfJS, xwfKws_ofList, xwfKw, xwf_numKws 1 (by decide) cks top _ h]
  | .bool, _, _, _, _, _ => by simp [toJS, xwfJS, xwfKws_ofList, xwfKw]
  | .nil, _, _, _, _, _ => by simp [toJS, nullJS, xwfJS, xwfKws, xwfKw]
  | .any, _, _, _, _, _ => by simp [toJS, nullJS, xwfJS, xwfKws_ofList, xwfKws, xwfKw, xwfList, JSList.length]
  | .never, _, _, _, _, _ => by simp [toJS, xwfJS, xwfKws_ofList, xwfKw]
  | .enum vs, _, _, _, _, _ => by simp [toJS, xwfJS, xwfKws_ofList, xwfKw]
  | .lit vs, _, _, _, _, _ => by
    simp only [toJS, xwfJS, xwfKws_ofList, List.all_append, Bool.and_eq_true]
    constructor
    · cases vs with
      | nil => rfl
      | cons v vs => cases v <;> simp [litType, xwfKw]
    · match vs with
      | [] => simp [litVal, xwfKw]
      | [v] => simp [litVal, xwfKw]
      | v :: w :: vs => simp [litVal, xwfKw]
  | .opt s, top, o, n, h, hk => by
    simp only [reprP, Bool.and_eq_true] at h
    simpa [toJS] using xwf s top true n h.2 (by simpa [keysOK] using hk)
  | .nul s, top, o, n, h, hk => by
    simp only [reprP] at h
    have ih := xwf s top o true h (by simpa [keysOK] using hk)
    simp only [toJS]
    split
    · exact ih
    · simp [xwfJS, xwfKws_ofList, xwfKw, xwfList, ih, nullJS, xwfKws, JSList.length]
  | .obj mode ca part cks shape, top, o, n, h, hk => by
    simp only [reprP, Bool.and_eq_true] at h
    simp only [keysOK, Bool.and_eq_true] at hk
    have hs := xwfShape shape h.2 hk.2
    have hc : xwfJS (caJS ca mode.isLoose) = true := by
      cases ca with
      | none => simp [caJS, xwfJS]
      | some c => simpa [caJS] using xwf c false false false (by simpa [reprCa] using h.1.2) (by simpa [keysOKO] using hk.1.2)
    simp only [toJS, xwfJS, xwfKws_ofList, List.all_append, List.all_cons, List.all_nil, Bool.and_eq_true, Bool.and_true]
    refine ⟨⟨⟨⟨by simp [xwfKw], ?_⟩, ?_⟩, by simpa [xwfKw] using hc⟩, ?_⟩
    · split <;> simp [xwfKw, hs, propsJS_keys, hk.1.1]
    · split <;> simp [xwfKw, nodup_reqKeysP part shape hk.1.1]
    · unfold propsKws; simp only [List.all_append, Bool.and_eq_true]
      exact ⟨xwf_optKw _ _ (by simp [xwfKw]), xwf_optKw _ _ (by simp [xwfKw])⟩
  | .slice e cks, top, o, n, h, hk => by
    simp only [reprP, Bool.and_eq_true] at h
    have ih := xwf e false false false h.2 (by simpa [keysOK] using hk)
    simp only [toJS, xwfJS, xwfKws_ofList, List.all_append, List.all_cons, List.all_nil, Bool.and_eq_true, Bool.and_true]
    refine ⟨⟨by simp [xwfKw], by simpa [xwfKw] using ih⟩, ?_⟩
    unfold itemsKws; simp only [List.all_append, Bool.and_eq_true]
    exact ⟨xwf_optKw _ _ (by simp [xwfKw]), xwf_optKw _ _ (by simp [xwfKw])⟩
  | .arr rest cks items, top, o, n, h, hk => by
    simp only [reprP, Bool.and_eq_true] at h
    simp only [keysOK, Bool.and_eq_true] at hk
    obtain ⟨⟨⟨hck, hlen⟩, hrest⟩, hitems⟩ := h
    have hck' : cks = [] := by simpa using hck
    subst hck'
    have hl := xwfListS items hitems hk.2
    have hlen' := listJS_length items
    cases rest with
    | some r =>
      have hr := xwf r false false false (by simpa [reprCa] using hrest) (by simpa [keysOKO] using hk.1)
      simp only [toJS, lenBag_nil, xwfJS, xwfKws_ofList, List.append_nil, List.all_append, List.all_cons, List.all_nil]
      split
      · simp [xwfKw, hr]
      · rename_i hz
        have : 0 < items.length := by
          cases items <;> simp_all [SList.length]
        simp [xwfKw, hr, hl, hlen', this]
    | none =>
      have hne : (items.length == 1) = false := by simpa using hlen
      simp only [toJS, lenBag_nil, xwfJS, xwfKws_ofList, List.append_nil, List.all_append, List.all_cons, List.all_nil, hne]
      simp only [Bool.false_eq_true, if_false]
      split
      · simp [xwfKw]
      · rename_i hz
        have : 0 < items.length := by
          cases items <;> simp_all [SList.length]
        simp [xwfKw, hl, hlen', this]
  | .tup rest cks items, top, o, n, h, hk => by
    simp only [reprP, Bool.and_eq_true] at h
    simp only [keysOK, Bool.and_eq_true] at hk
    obtain ⟨⟨⟨hck, _⟩, hrest⟩, hitems⟩ := h
    have hck' : cks = [] := by simpa using hck
    subst hck'
    have hl := xwfListS items hitems hk.2
    have hlen' := listJS_length items
    cases rest with
    | some r =>
      have hr := xwf r false false false (by simpa [reprCa] using hrest) (by simpa [keysOKO] using hk.1)
      simp only [toJS, lenBag_nil, xwfJS, xwfKws_ofList, List.append_nil, List.all_append, List.all_cons, List.all_nil]
      split
      · simp [xwfKw, hr]
      · rename_i hz
        have : 0 < items.length := by
          cases items <;> simp_all [SList.length]
        simp [xwfKw, hr, hl, hlen', this]
    | none =>
      simp only [toJS, lenBag_nil, xwfJS, xwfKws_ofList, List.append_nil, List.all_append, List.all_cons, List.all_nil]
      split
      · simp [xwfKw]
      · rename_i hz
        have : 0 < items.length := by
          cases items <;> simp_all [SList.length]
        simp [xwfKw, hl, hlen', this]
  | .record key val cks, top, o, n, h, hk => by
    simp only [reprP, Bool.and_eq_true] at h
    simp only [keysOK, Bool.and_eq_true] at hk
    have hkk := xwf key false false false h.1.1.2 hk.1
    have hv := xwf val false false false h.2 hk.2
    simp only [toJS, xwfJS, xwfKws_ofList, List.all_append, List.all_cons, List.all_nil, Bool.and_eq_true, Bool.and_true]
    refine ⟨by simp [xwfKw, hkk, hv], ?_⟩
    unfold propsKws; simp only [List.all_append, Bool.and_eq_true]
    exact ⟨xwf_optKw _ _ (by simp [xwfKw]), xwf_optKw _ _ (by simp [xwfKw])⟩
  | .union ms, top, o, n, h, hk => by
    simp only [reprP, Bool.and_eq_true] at h
    have hsp := members_noSpecial ms h.2
    have hl := xwfMembers ms h.2 (by simpa [keysOK] using hk)
    have hne : 0 < (listJS ms).length := by
      rw [listJS_length]; cases ms <;> simp_all [SList.length]
    simp [toJS, hsp, xwfJS, xwfKws_ofList, xwfKw, hl, hne]
  | .xor ms, top, o, n, h, hk => by
    simp only [reprP, Bool.and_eq_true] at h
    have hl := xwfMembers ms h.2 (by simpa [keysOK] using hk)
    have hne : 0 < (listJS ms).length := by
      rw [listJS_length]; cases ms <;> simp_all [SList.length]
    simp [toJS, xwfJS, xwfKws_ofList, xwfKw, hl, hne]
  | .and l r, top, o, n, h, hk => by
    simp only [reprP, Bool.and_eq_true] at h
    simp only [keysOK, Bool.and_eq_true] at hk
    simp [toJS, xwfJS, xwfKws_ofList, xwfKw, xwfList, xwf l false false false h.1.2 hk.1, xwf r false false false h.2 hk.2, JSList.length]

theorem xwfListS : (ss : SList) → reprList ss = true → keysOKL ss = true → xwfList (listJS ss) = true
  | .nil, _, _ => rfl
  | .cons s ss, h, hk => by
    simp only [reprList, Bool.and_eq_true] at h
    simp only [keysOKL, Bool.and_eq_true] at hk
    simp [listJS, xwfList, xwf s false false false h.1 hk.1, xwfListS ss h.2 hk.2]

theorem xwfMembers : (ss : SList) → reprMembers ss = true → keysOKL ss = true → xwfList (listJS ss) = true
  | .nil, _, _ => rfl
  | .cons s ss, h, hk => by
    simp only [reprMembers, Bool.and_eq_true] at h
    simp only [keysOKL, Bool.and_eq_true] at hk
    simp [listJS, xwfList, xwf s false false false h.1.2 hk.1, xwfMembers ss h.2 hk.2]

theorem xwfShape : (sh : Shape) → reprShape sh = true → keysOKSh sh = true → xwfProps (propsJS sh) = true
  | .nil, _, _ => rfl
  | .cons k s rest, h, hk => by
    simp only [reprShape, Bool.and_eq_true] at h
    simp only [keysOKSh, Bool.and_eq_true] at hk
    simp [propsJS, xwfProps, xwf s false false false h.1 hk.1, xwfShape rest h.2 hk.2]
end

/-- **C07, well-formedness of keyword values**: for every representable schema whose object shapes have distinct field
    names, the emitted document satisfies the metaschema's constraints on `multipleOf`, `required`, `properties`,
    `prefixItems`, `anyOf` / `oneOf` / `allOf`, and uses no keyword outside the vocabulary. -/
theorem c07_wellformed_values (s : S) (h : reprP true s = true) (hk : keysOK s = true) : xwfJS (toDoc s) = true :=
  xwf s true false false h hk

example : keysOK (.obj .strict .none true [.min 1] (.cons [97] (.int .int [.mul 3, .gte 0]) (.cons [98] (.tup .none [] (.cons .bool .nil)) .nil))) = true
    ∧ reprP true (.obj .strict .none true [.min 1] (.cons [97] (.int .int [.mul 3, .gte 0]) (.cons [98] (.tup .none [] (.cons .bool .nil)) .nil))) = true := by
  decide

/-- the predicate is not vacuous: it rejects what the metaschema rejects. -/
example : xwfJS (.node (.ofList [.multipleOf 0])) = false
    ∧ xwfJS (.node (.ofList [.required [[97], [97]]])) = false
    ∧ xwfJS (.node (.ofList [.prefixItems .nil])) = false
    ∧ xwfJS (.node (.ofList [.anyOf .nil])) = false
    ∧ xwfJS (.node (.ofList [.other [120]])) = false := by decide

end Gozod.C07
