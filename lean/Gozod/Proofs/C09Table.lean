/-
  C09 — the entry-point table regenerated from `types/*.go` (`Gen/EntryPoints.lean`) is the table the
  model was written against: every entry point of every schema type is routed as recorded in
  `Gozod.EntryPoints.expected`, every `ParseAny` / `Must*` is the plain wrapper, and every
  (`Parse`, `StrictParse`) pair is either covered by an agreement theorem of the engine model or has
  a recorded disposition (finding / compared by the run only).
-/
import Gozod.Gen.EntryPoints
namespace Gozod.C09
open Gozod.EntryPoints Gozod.Gen.EntryPoints

/-- **Whole table.** The (`Parse`, `StrictParse`) mechanism of every schema type is the expected one: a
    type whose `StrictParse` (or `Parse`) is re-routed changes this proof obligation, and
    `tableOffenders table` names the type. -/
theorem c09_table_as_expected : tableOffenders table = [] := by decide +kernel

/-- **Whole table.** On every schema type `ParseAny` is `return z.Parse(input, ctx...)` and each
    `Must<X>` is `r, err := z.X(input, ctx...); if err != nil { panic(err) }; return r` (or both are
    promoted from the same embedded schema). -/
theorem c09_table_wrappers : wrapperOffenders table = [] := by decide +kernel

/-- Every pair is a theorem of the engine model or has a disposition, and no disposition is stale. -/
theorem c09_table_covered : uncovered table = [] := by decide +kernel

/-- **After 872fea0 and 9ae719b**: these 15 types answer `StrictParse` by calling `Parse` — agreement by
    construction (`c09_parseAny_eq_parse_all` is the same shape). -/
theorem c09_table_via_parse : viaParseTypes table =
    ["ZodArray", "ZodDiscriminatedUnion", "ZodEnum", "ZodIntersection", "ZodLazy", "ZodLiteral", "ZodMap", "ZodNever", "ZodNil",
     "ZodObject", "ZodRecord", "ZodSet", "ZodTuple", "ZodUnion", "ZodXor"] := by decide +kernel

/-- … and exactly these five types are still type-local (their pair is judged by the run; `ZodStringBool` is the
    one with a finding): every other schema type's (`Parse`, `StrictParse`) agreement is a theorem — the bare
    primitive pair with a checks-only validator, the bare complex pair, `StrictParse = Parse`, or promoted
    from / forwarded to an embedded schema of one of these kinds. -/
theorem c09_table_type_local : notByTheorem table = ["ZodBigInt", "ZodFile", "ZodFunction", "ZodStringBool", "ZodStruct"] := by
  decide +kernel

/-- **Whole table (round 4b): the method Go actually selects.** For every schema type, following promotion through
    embedded schemas (a promoted method runs on the EMBEDDED value), `ParseAny`, `MustParse` and `MustParseAny` bottom out
    in the very implementation the type's `Parse` bottoms out in, and `MustStrictParse` in that of its `StrictParse`. A type
    that overrides `Parse` but keeps the promoted wrappers (seeded/C09d) fails this. -/
theorem c09_table_bases : baseOffenders table = [] := by decide +kernel

/-- The statement is not vacuous: 24 types embed a schema AND declare entry points of their own. -/
theorem c09_table_mixed : 20 ≤ (mixedTypes table).length := by decide +kernel

/-- **Transcribed pairs.** The rows and every statement around the engine call of `ZodBigInt`, `ZodFile`, `ZodFunction`,
    `ZodStruct` are, text for text, what `Gozod.TypeLocal` transcribes (`c09_bigint_strict_eq_parse`,
    `c09_file_strict_eq_parse`, `c09_function_same_verdict_value`, `c09_struct_partial`). -/
theorem c09_table_transcribed : transcriptionOffenders table stmts = [] := by decide +kernel

/-- … so only `ZodStringBool` (different domains by design) is left to the run alone. -/
theorem c09_table_run_only : judgedByRunOnly table = ["ZodStringBool"] := by decide +kernel

/-- The table is not vacuous: at least 50 schema types, six rows each. -/
theorem c09_table_nonempty : 50 ≤ (Table.types table).length ∧ table.length = 6 * (Table.types table).length := by decide +kernel

end Gozod.C09
