/-
  Line handlers for C11 (grammar: harness/cmd/c11/main.go).
    inst <J0> <J> → "<P> <V> <R>\t<reasons>"   P = acceptsPlain, V = jsValid j.doc, R = jsValid (toDoc (fromJ0 j))
    kw <keyword>  → row of Gen.keywordTable ("<documented> <strictRejects>")
-/
import Gozod.Drv.C07
import Gozod.Model.FromJson
import Gozod.Gen.KeywordTable
namespace Gozod.Drv.C11
open Gozod.Jsc Gozod.Drv.C07

def pOptNat : String → Option (Option Nat)
  | "-" => some none
  | t => t.toNat?.map some
def pOptInt : String → Option (Option Int)
  | "-" => some none
  | t => t.toInt?.map some

partial def pJ0 : List String → Option (J0 × List String)
  | "bool" :: ts => some (.bool, ts)
  | "null" :: ts => some (.null, ts)
  | "any" :: ts => some (.any, ts)
  | "(" :: "str" :: a :: b :: ")" :: ts => do pure (.str (← pOptNat a) (← pOptNat b), ts)
  | "(" :: "num" :: a :: b :: ")" :: ts => do pure (.num (← pOptInt a) (← pOptInt b), ts)
  | "(" :: "int" :: a :: b :: ")" :: ts => do pure (.int (← pOptInt a) (← pOptInt b), ts)
  | "(" :: "arr" :: ts => do
      let (it, ts) ← pJ0 ts
      match ts with
      | a :: b :: ")" :: ts => pure (.arr it (← pOptNat a) (← pOptNat b), ts)
      | _ => none
  | "(" :: "anyOf" :: ts => do
      let (a, ts) ← pJ0 ts
      let (b, ts) ← pJ0 ts
      match ts with | ")" :: ts => pure (.anyOf2 a b, ts) | _ => none
  | "(" :: "oneOf" :: ts => do
      let (a, ts) ← pJ0 ts
      let (b, ts) ← pJ0 ts
      match ts with | ")" :: ts => pure (.oneOf2 a b, ts) | _ => none
  | _ => none

partial def why : J0 → List String
  | .int _ _ => ["integer-type"]
  | .arr it _ _ => why it
  | .anyOf2 a b => (if a.admitsNull || b.admitsNull then ["nullable-union"] else []) ++ why a ++ why b
  | .oneOf2 a b => (if a.admitsNull || b.admitsNull then ["nullable-union"] else []) ++ why a ++ why b
  | _ => []

def handle : List String → String
  | ["kw", k] =>
    match Gozod.Gen.keywordTable.find? (fun r => r.kw == k) with
    | some r => b2s r.documented ++ " " ++ b2s r.strictRejects
    | none => "unknown-keyword"
  | "inst" :: ts =>
    match pJ0 ts with
    | some (j, ts) =>
      match pJ ts with
      | some (x, []) =>
        let rs := dedup (why j ++ instReasons x)
        let coherent := (rs.isEmpty == (supported j && instOK x))
        b2s (acceptsPlain j x) ++ " " ++ b2s (jsValid j.doc x) ++ " " ++ b2s (jsValid (toDoc (fromJ0 j)) x)
          ++ "\t" ++ (if coherent then "" else "INCOHERENT,") ++ ",".intercalate rs
      | _ => "bad-op"
    | none => "bad-op"
  | _ => "bad-op"

end Gozod.Drv.C11
