/- GENERATED: no certificate exists for cidrv6_nopct: the pattern and the specification differ on the byte string (hex) 3a3a302e302e302e30302f30 (pattern true, specification false). -/
