/-
  C06 — the static table of type switches (`Gen.tagFacts`, go/ast over types/struct.go) against the rule
  matrix: every documented (rule, field type) cell outside the known-finding region is REACHED by some
  `case` of some switch the rule name leads to; and a cell that is not reached is observed as dropped in
  the behavioural table `Gen.tagTable`.  Deleting a `case` from a switch (or a branch from the constructor
  switch) changes `Gen.tagFacts`, and the failing obligation names the cell and the switch.
-/
import Gozod.Model.TagSwitch
import Gozod.Model.TagsKnown
import Gozod.Gen.TagSwitches
import Gozod.Gen.TagTable
import Gozod.Gen.TagTableX
namespace Gozod.C06
open Gozod.Tags Gozod.Tags.Sw Gozod.Gen

/-- field types whose rules are applied by the switches (string, numeric and slice fields, value and pointer) -/
def switched (t : FTy) : Bool :=
  match t.base.cls with | .str | .num | .slice => true | _ => false

/-- the cells of one field type: the rule instances of the matrix that are documented for its class and are
    applied by a switch (everything but `required`) -/
def swCells (t : FTy) : List (TRule × RName) :=
  (singleInstances t.base).filterMap fun r =>
    if documented r t.base.cls then (RName.of r).map (fun n => (r, n)) else none

/-- Full statement: every documented rule reaches every field type it is documented for. -/
def c06_switches_reach_full : Prop :=
  ∀ t ∈ allFtys, switched t = true → ∀ c ∈ swCells t, reaches tagFacts c.2 t = true

/-- the cells where a missing case is expected: the known findings, and the rules no value of the field's
    type can violate (`max=127` on int8, `nonnegative` on uint) — unreached like the others, but unobservable -/
def unreachedKnown (r : TRule) (t : FTy) : Bool := knownSingle r t || vacuous r t.base

def reachOK (t : FTy) : Bool :=
  !switched t || (swCells t).all fun c => unreachedKnown c.1 t || reaches tagFacts c.2 t

/-- **Every cell is reached by some case**, outside the known-finding cells: the concrete schema type the
    field starts with (constructor switch of createSchemaFromTypeWithInfo / createSliceSchema, result type
    of the constructor) is listed by a case of a switch reachable from the rule's name. -/
theorem c06_switches_reach_partial :
    ∀ t ∈ allFtys, switched t = true → ∀ c ∈ swCells t, unreachedKnown c.1 t = false → reaches tagFacts c.2 t = true := by
  have h : allFtys.all reachOK = true := by decide +kernel
  intro t ht hs c hc hk
  have := List.all_eq_true.mp h t ht
  simp only [reachOK, hs, Bool.not_true, Bool.false_or] at this
  have := List.all_eq_true.mp this c hc
  simpa [hk] using this

/-- **Every cell is reached — full statement** (the rule switches dispatch on the generic schema types). -/
theorem c06_switches_reach : c06_switches_reach_full := by
  have h : (allFtys.all fun t => !switched t || (swCells t).all fun c => reaches tagFacts c.2 t) = true := by decide +kernel
  intro t ht hs c hc
  have := List.all_eq_true.mp h t ht
  simp only [hs, Bool.not_true, Bool.false_or] at this
  exact List.all_eq_true.mp this c hc

/-- the static table knows the schema type of every switched field type -/
theorem c06_switches_cover : ∀ t ∈ allFtys, switched t = true → (lookupTy tagFacts t).isSome = true := by
  have h : (allFtys.all fun t => !switched t || (lookupTy tagFacts t).isSome) = true := by decide +kernel
  intro t ht hs
  have := List.all_eq_true.mp h t ht
  simpa [hs] using this

def unreachedDropped (b : Block) : Bool :=
  !switched b.fty || b.singles.all fun s =>
    match RName.of s.1 with
    | none => true
    | some n => !documented s.1 b.fty.base.cls || reaches tagFacts n b.fty || vacuous s.1 b.fty.base ||
        s.2 != expected [s.1] b.probes

/-- **Static ⇒ behavioural**: a documented cell that no case reaches is observed as a dropped rule in the
    regenerated behavioural table (unless no value of the type can violate the rule). -/
theorem c06_unreached_is_dropped :
    ∀ b ∈ tagTable, switched b.fty = true → ∀ s ∈ b.singles, ∀ n, RName.of s.1 = some n →
      documented s.1 b.fty.base.cls = true → reaches tagFacts n b.fty = false → vacuous s.1 b.fty.base = false →
      s.2 ≠ expected [s.1] b.probes := by
  have h : tagTable.all unreachedDropped = true := by decide +kernel
  intro b hb hsw s hs n hn hd hr hv
  have := List.all_eq_true.mp h b hb
  simp only [unreachedDropped, hsw, Bool.not_true, Bool.false_or] at this
  have := List.all_eq_true.mp this s hs
  simpa [hn, hd, hr, hv] using this

/-- the NON-PROPERTY table of undocumented rule names (`Gen.tagTableX`, read by C13) is well formed: one verdict per
    probe, for field types of the matrix.  No statement about the verdicts themselves. -/
theorem c06_tableX_shape :
    (tagTableX.all fun b => allFtys.contains b.1 && b.2.2.all fun c => c.2.length == b.2.1.length) = true := by
  decide +kernel

-- non-vacuity: cells that are reached, with the switch that reaches them
example : reaches tagFacts .min ⟨false, .int64⟩ = true := by decide +kernel
example : ∃ t ∈ allFtys, switched t = true ∧ ∃ c ∈ swCells t, unreachedKnown c.1 t = false ∧ c.2 = .length := by decide +kernel

end Gozod.C06
