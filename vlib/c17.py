"""C17 — coercion preserves the value exactly or fails; it never wraps or truncates."""
from fractions import Fraction
from . import common as C
from . import numgen

MANIFEST = dict(
   technique="Lean 4 proof (soundness of the transcribed ToInt64/ToInteger[T]/ToFloat64/ToFloat[T]/ToBool/ToBigInt/To[T] over all of Int and all dyadic floats; the coercing schema as the transcription of engine.parsePrimitiveValue over C01's Prim.parse and C16's check algorithms, for chains of checks) + translator (go/ast over pkg/coerce, coerce, types, internal/engine/parser.go -> Gen/CoerceDispatch.lean, regenerated on every run; every type switch, guard, range constant and routing of the model - including the coercion branch of parsePrimitiveValue and the Parse method of every primitive schema type - is proved equal to / pinned by the table) + Lean functions for strings.TrimSpace, strconv.ParseInt/ParseUint/FormatInt and big.Int.SetString with soundness, completeness and round-trip theorems + differential correspondence of that model against pkg/coerce, the gozod/coerce schemas AND the plain gozod schemas on the coerced value, and the real strconv/strings/math/big functions, judged by a math/big oracle",
   text="Theorems c17_int64_sound / c17_integer_sound (all ten integer targets) / c17_bigint_sound prove that a successful coercion returns exactly the value the source denotes and lands in the target's range; c17_int64_err / c17_integer_err prove that NaN, infinite, fractional, out-of-range and negative-to-unsigned sources are errors; float targets: c17_int_to_f64_nearest / c17_int_to_f64_exact (integers), C17F.toFloat32_f64_value / toFloat64_big_value / toFloat32_big_value (float64 -> float32 and big integers -> float64/float32 are correctly rounded in ONE rounding against the independent NearestMag: multiple of the ulp, within half an ulp, ties to even, subnormals included), c17_f32_no_inf / c17_float64_finite (a finite source never becomes Inf), C17F.toFloatF64_eq (ToFloat[float64] = ToFloat64); c17_bool_table / c17_bool_sound, C17T.c17_float32_sound / c17_string_sound describe what the bool, float32 and string helpers return per source kind (these two restate the model's branches; the value statements are the ones above); C17P.* and C17T.* make integer text assumption-free (parseInt_sound / parseInt_complete / parseInt_formatInt; C17T.c17_int64_text_sound_ascii reads ASCII text without the model's trimSpace). Third sentence: C17S.c17_schema_eq - the transcription of parsePrimitiveValue with Coerce set answers, on an input of another type, exactly what the PLAIN schema (C01's Prim.parse with the same internals) answers on coerce.To[T](input), a failed coercion being the invalid-type error; c17_schema_exact_first / parseValue_plain (an input of the schema's type: the coercing schema is the plain schema); c17_schema_sound (success iff To[T] produced that value and EVERY check of the chain holds on it); holds_exact (each check - Gt/Gte/Lt/Lte/Min/Max with int64, float64 or *big.Int bound, MultipleOf/Step on integers and big integers, string length, prefix - evaluated by the code's algorithm equals its documented meaning: composition with C16's c16_cmp, multipleOfInts_exact, C16B.c16_big_cmp, c16_big_multiple); c17_schema_int_sound end to end. These are unfolding theorems about two transcriptions; what ties them to the code is the run: driver_c17 computes parseValue AND plainOnCoerced for every S line and the harness observes the real coercing schema AND the real plain schema on coerce.To[T](input), with chains of up to four checks (bound, MultipleOf/Step, prefix, a user refinement); plus the translated tables (C17D.parsePrimitiveValue_coerce_table: under internals.Coerce the helper is coerce.To[T] on the unchanged input and the coerced value goes to the same validateWithChecks call as an input of type T; parsePrimitiveValue_order; schema_parse_routes: Bool, String, BigInt, integer and float schemas all enter engine.ParsePrimitive with their own base type). The coerce helpers are tied by translation (C17D.*_table) and by exhaustive 8-bit (thorough: 16-bit) sources and a boundary grid over every (source kind, target) pair.",
   note="Trusted: Lean kernel; axioms propext/Classical.choice/Quot.sound only; the Go harness, its math/big oracle and the comparer; strconv.ParseFloat/FormatFloat and strings.ToLower enter the model as parameters whose results the harness ships with each case (cross-checked against math/big on the generated cases only); strings.TrimSpace, strconv.ParseInt/ParseUint/FormatInt, big.Int.SetString are Lean functions proved against an independent positional denotation and driven against the real functions (P/F lines). amd64 semantics of int64(float). Primitives (int64(f), float32(f), big.Int.Float64) being roundMag/cvtI64 is validated on generated cases, not proved. float MultipleOf on a coerced float has no exact specification (C16's epsilon rule: the code's rule is the oracle there; counted in the evidence). The user refinement of the chains is a fixed menu (even / whole / true / non-empty) whose Lean reading is its own specification. validatePointer / handleNilPointer / the modifiers around parsePrimitiveValue are C01/C03's (Prim.checked, Prim.nilPath imported); multi-level pointers and nil inputs to coercing schemas are not generated. ToFloat64 of a complex source returns the magnitude (open known finding complex-magnitude, witness theorem complex_magnitude_witness). Time and []byte sources and complex/time targets are outside the property. Spurious failures (e.g. uint64 values above MaxInt64, +Inf into float32) are allowed by the statement and only counted.",
   design="DESIGN.md §5 C17, §3.6; notes/C17.md")

MODULES = ["Gozod.Proofs.C17", "Gozod.Proofs.C17Dispatch", "Gozod.Proofs.C17Parse", "Gozod.Proofs.C17Text", "Gozod.Proofs.C17Schema", "Gozod.Proofs.C17Float"]
THEOREMS = [
    "Gozod.C17.c17_int64_sound", "Gozod.C17.c17_int64_err", "Gozod.C17.c17_int64_err_nan", "Gozod.C17.c17_int64_err_inf",
    "Gozod.C17.c17_int64_err_fractional", "Gozod.C17.c17_int64_err_range", "Gozod.C17.floatToInt64_complete",
    "Gozod.C17.c17_integer_sound", "Gozod.C17.c17_integer_err", "Gozod.C17.c17_integer_err_negative", "Gozod.C17.c17_integer_i64_eq",
    "Gozod.C17.c17_bigint_sound", "Gozod.C17.roundTo_correct", "Gozod.C17.c17_int_to_f64_nearest", "Gozod.C17.c17_int_to_f64_exact",
    "Gozod.C17.rneDiv_nearest", "Gozod.C17.roundMag_correct", "Gozod.C17.c17_float64_sound", "Gozod.C17.c17_float64_nan_err", "Gozod.C17.c17_float64_finite", "Gozod.C17.c17_f32_no_inf",
    "Gozod.C17.c17_bool_table", "Gozod.C17.c17_bool_sound", "Gozod.C17.toInteger_int_iff", "Gozod.C17.c17_float64_partial", "Gozod.C17.complex_magnitude_witness",
    "Gozod.C17.legacy_int64_wraps_f64", "Gozod.C17.legacy_int64_wraps_f32", "Gozod.C17.legacy_integer_truncates",
    "Gozod.C17.legacy_integer_nan", "Gozod.C17.legacy_not_sound",
    # over the tables regenerated from the source (Gen/CoerceDispatch.lean)
    "Gozod.C17D.floatToInt64_table", "Gozod.C17D.ToInt64_table", "Gozod.C17D.ToFloat64_table", "Gozod.C17D.ToBool_table",
    "Gozod.C17D.ToString_table", "Gozod.C17D.ToBigInt_table", "Gozod.C17D.bounds_table", "Gozod.C17D.ToInteger_table",
    "Gozod.C17D.f32_tail", "Gozod.C17D.toFloat32_table", "Gozod.C17D.stringToInt64_table", "Gozod.C17D.stringToFloat_table",
    "Gozod.C17D.stringToFloat64_table", "Gozod.C17D.bigIntToFloat64_table", "Gozod.C17D.string_calls", "Gozod.C17D.To_routes",
    "Gozod.C17D.schema_routes", "Gozod.C17D.bool_words", "Gozod.C17D.bool_pre", "Gozod.C17D.frames", "Gozod.C17D.deref_first",
    "Gozod.C17D.nil_table", "Gozod.C17D.case_types_known", "Gozod.C17D.results_known",
    "Gozod.C17D.c17_int64_sound_table", "Gozod.C17D.c17_integer_sound_table",
    # round 4c: engine.parsePrimitiveValue (order of its tests, the coercion branch) and the Parse method of every primitive schema type
    "Gozod.C17D.parsePrimitiveValue_coerce_table", "Gozod.C17D.parsePrimitiveValue_order", "Gozod.C17D.schema_parse_routes", "Gozod.C17D.bigint_parse_pre",
    # text primitives as Lean functions (Model/ParseInt.lean): ParseInt / ParseUint / SetString / FormatInt / TrimSpace
    "Gozod.C17P.parseInt_sound", "Gozod.C17P.parseInt_complete", "Gozod.C17P.parseInt_iff", "Gozod.C17P.formatInt_denotes",
    "Gozod.C17P.parseInt_formatInt", "Gozod.C17P.parseInt_formatInt_i64", "Gozod.C17P.parseUint_formatNat", "Gozod.C17P.parseUint_sound",
    "Gozod.C17P.parseBig_formatInt", "Gozod.C17P.parseBig_sound", "Gozod.C17P.parseInt_rejects", "Gozod.C17P.parseInt_rejects_underscore",
    "Gozod.C17P.parseInt_boundaries", "Gozod.C17P.trimSpace_formatInt", "Gozod.C17P.trimSpace_samples",
    # integer text sources without strconv assumptions (Proofs/C17Text.lean)
    "Gozod.C17T.c17_int64_text_sound", "Gozod.C17T.c17_int64_text_complete", "Gozod.C17T.c17_int64_text_err",
    "Gozod.C17T.c17_integer_text_sound", "Gozod.C17T.c17_string_int_sound", "Gozod.C17T.c17_text_roundtrip_i64",
    "Gozod.C17T.c17_text_roundtrip_big", "Gozod.C17T.c17_bigint_text_sound", "Gozod.C17T.sign_after_prefix_witness",
    "Gozod.C17T.c17_float32_sound", "Gozod.C17T.c17_string_sound",
    # round 4c: integer text read on the text itself (ASCII blanks / printable core), no trimSpace in the statement
    "Gozod.C17T.trimSpace_ascii_frame", "Gozod.C17T.c17_int64_text_sound_ascii",
    # third sentence (round 4c): the coercing schema = parsePrimitiveValue's transcription over C01's Prim.parse and C16's checks;
    # driver_c17 runs parseValue AND plainOnCoerced / parsePlain on every S line
    "Gozod.C17S.c17_schema_eq", "Gozod.C17S.plainOnCoerced_ok", "Gozod.C17S.plainOnCoerced_err", "Gozod.C17S.c17_schema_exact_first",
    "Gozod.C17S.parseValue_plain", "Gozod.C17S.c17_schema_sound", "Gozod.C17S.c17_schema_outcomes", "Gozod.C17S.runFrom_preds",
    "Gozod.C17S.checked_iff", "Gozod.C17S.holds_exact", "Gozod.C17S.c17_schema_int_sound", "Gozod.C17S.c17_schema_check_exact",
    "Gozod.C17S.c17_schema_check_exact_float", "Gozod.C17S.c17_bigint_check_exact", "Gozod.C17S.isPrefix_spec",
    "Gozod.C17S.bigToF64_exact", "Gozod.C17S.legacy_bigint_check_partial", "Gozod.C17S.legacy_bigint_check_witness",
    # float targets: value theorems against the independent NearestMag (roundMag_correct + rneDiv_nearest composed)
    "Gozod.C17F.toFloatF64_eq", "Gozod.C17F.roundMag_nearest", "Gozod.C17F.toFloat32_f64_value", "Gozod.C17F.toFloat64_big_value",
    "Gozod.C17F.toFloat32_big_value", "Gozod.C17F.toFloat64_float_value",
]

def _src(t, i):
    """source kind and the index after the source tokens."""
    k = t[i]
    n = {"f32": 3, "f64": 3, "bool": 2, "big": 2, "nil": 1, "other": 1, "str": 10, "c128": 4, "c64": 4, "x": 2}.get(k, 2)
    return k, i + n

def parse_op(op):
    t = C.op_body(op).split(" ")
    if t[1] in ("P", "F"):
        return dict(mode=t[1], helper="text", tgt="-", kind="text", src=t[2:], oracle=[])
    chain, ptr = [], "0"
    if t[1] == "H":
        mode, helper, tgt, i = "H", t[2], t[3], 4
    else:
        # S <tgt> <ptr> <n> (<op> <bkind> <bval>)^n SRC | ORACLE
        n = int(t[4]); ptr = t[3]
        chain = [tuple(t[5 + 3 * k: 8 + 3 * k]) for k in range(n)]
        mode, helper, tgt, i = "S", "schema", t[2], 5 + 3 * n
    kind, j = _src(t, i)
    return dict(mode=mode, helper=helper, tgt=tgt, kind=kind, src=t[i:j], oracle=t[j + 1:], chain=chain, ptr=ptr)

def _halves(impl):
    """S lines: '<coercing schema> ~ <plain schema on the coerced value>'."""
    if " ~ " in impl:
        a, b = impl.split(" ~ ", 1)
        return a, b
    return impl, None

def _differs(impl):
    a, b = _halves(impl)
    return b is not None and a != b

def _cls(kind):
    if kind in ("f32", "f64"): return "float"
    if kind in ("c128", "c64"): return "complex"
    if kind in ("str", "bool", "big", "nil", "other"): return kind
    if kind == "x": return "ext"
    return "int"

def _tcls(t):
    if t in ("f32", "f64"): return t
    if t in ("bool", "str", "big"): return t
    return "uint" if t.startswith("u") else "sint"

def _reason(p):
    """why the source has no faithful image in the target."""
    den = p["oracle"][0] if p["oracle"] else "?"
    if den in ("nan", "none"): return den
    if den in ("+inf", "-inf"): return "inf"
    if den.startswith("Q"):
        n, d = den[1:].split("/")
        q = Fraction(int(n), int(d))
        t = p["tgt"]
        if _tcls(t) in ("sint", "uint", "big"):
            if q.denominator != 1: return "fractional"
            if _tcls(t) == "uint" and q < 0: return "negative"
            return "out-of-range"
        if t in ("f32", "f64"): return "overflow-to-inf"
    return "other"

_RANGE = {"i8": (-2**7, 2**7 - 1), "i16": (-2**15, 2**15 - 1), "i32": (-2**31, 2**31 - 1), "i64": (-2**63, 2**63 - 1), "int": (-2**63, 2**63 - 1),
          "u8": (0, 2**8 - 1), "u16": (0, 2**16 - 1), "u32": (0, 2**32 - 1), "u64": (0, 2**64 - 1), "uint": (0, 2**64 - 1)}

def _fits(p):
    """the denoted value has a faithful image in the target type (so an error can only come from a check)."""
    den = p["oracle"][0] if p["oracle"] else "?"
    t = p["tgt"]
    if t in ("bool", "str"): return den != "none" or p["kind"] in ("bool", "str")
    if not den.startswith("Q"): return den in ("+inf", "-inf") and t in ("f32", "f64")
    n, d = den[1:].split("/")
    q = Fraction(int(n), int(d))
    if t in _RANGE: return q.denominator == 1 and _RANGE[t][0] <= q <= _RANGE[t][1]
    if t == "big": return q.denominator == 1
    return len(p["oracle"]) > 2 and p["oracle"][1 if t == "f64" else 2].startswith("F")

def key(op, impl, M, S):
    p = parse_op(op)
    if p["mode"] == "P": return "text:TrimSpace/ParseInt/ParseUint/SetString"
    if p["mode"] == "F": return "text:FormatInt/FormatUint/big.String"
    head = "%s:%s:%s->%s" % (p["mode"], p["helper"], _cls(p["kind"]), _tcls(p["tgt"]))
    if _cls(p["kind"]) == "complex" and p["tgt"] in ("f32", "f64") and not impl.startswith("panic") and not _differs(impl):
        return "complex-magnitude:" + head      # ToFloat64(complex) is |z| by design: one known class
    if p["kind"] == "str" and p["tgt"] == "big" and impl.startswith("ok") and not _differs(impl):
        raw = (b"" if p["src"][1] == "-" else bytes.fromhex(p["src"][1])).strip().lower()
        if raw[:3] in (b"0x+", b"0x-"): return "sign-after-0x-prefix:" + head   # "0x+1F": one known class
    if impl.startswith("panic"): return head + ":panic"
    if _differs(impl): return head + ":schema-differs-from-plain-on-coerced-value"
    chk = ""
    if p["mode"] == "S" and p["chain"]:
        # which kinds of check the chain holds (a wrong verdict of one of them is a class of its own)
        chk = ":with-" + "+".join(sorted(set(c[0] if c[0] in ("mul", "refine", "prefix", "minlen", "maxlen") else "bound" for c in p["chain"])))
    if impl.startswith("ok") and S is not None and S.startswith("err"):
        if chk and _fits(p):
            # the source has a faithful image in the target: it is a CHECK of the chain that passed wrongly
            return head + ":check-passed-wrongly" + chk
        return head + ":accepts:" + _reason(p)
    return head + ":wrong-value"

GO_T = {"i8": "int8", "i16": "int16", "i32": "int32", "i64": "int64", "int": "int", "u8": "uint8", "u16": "uint16",
        "u32": "uint32", "u64": "uint64", "uint": "uint", "f32": "float32", "f64": "float64", "bool": "bool", "str": "string", "big": "*big.Int"}
GO_C = {"i8": "Int8", "i16": "Int16", "i32": "Int32", "i64": "Int64", "int": "Int", "u8": "Uint8", "u16": "Uint16", "u32": "Uint32",
        "u64": "Uint64", "uint": "Uint", "f32": "Float32", "f64": "Float64", "bool": "Bool", "str": "String", "big": "BigInt"}

def _f64(bits):
    import struct
    return struct.unpack("<d", struct.pack("<Q", int(bits)))[0]

def _go_src(p):
    k, t = p["kind"], p["src"]
    if k in ("f64", "f32"):
        e = "math.Float64frombits(%s) /* %r */" % (t[1], _f64(t[1]))
        return "float32(%s)" % e if k == "f32" else e
    if k == "bool": return "true" if t[1] == "1" else "false"
    if k in ("c128", "c64"):
        e = "complex(%r, %r)" % (_f64(t[1]), _f64(t[2]))
        return "complex64(%s)" % e if k == "c64" else e
    if k == "big": return 'func() *big.Int { b, _ := new(big.Int).SetString("%s", 10); return b }()' % t[1]
    if k == "nil": return "nil /* or a nil pointer */"
    if k == "other": return "struct{}{} /* or a slice / map */"
    if k == "x":
        den = p["oracle"][0] if p["oracle"] else "?"
        val = den[1:-2] if den.startswith("Q") and den.endswith("/1") else ("<%s>" % den)
        return "%s(%s) /* my* = a named type over the builtin (harness/cmd/c17 extGrid) */" % (t[1], val)
    if k == "str":
        raw = b"" if t[1] == "-" else bytes.fromhex(t[1])
        return '"' + "".join(chr(c) if 32 <= c < 127 and c not in (34, 92) else "\\x%02x" % c for c in raw) + '"'
    return "%s(%s)" % (GO_T[k], t[1])

def describe(op):
    """Go expression that reproduces the case (a pointer to the value when the comment says ptr=true)."""
    try:
        p = parse_op(op)
        if p["mode"] == "P":
            raw = b"" if p["src"][0] == "-" else bytes.fromhex(p["src"][0])
            return ("t := strings.TrimSpace(%r); strconv.ParseInt(t, 10, 8|16|32|64); strconv.ParseUint(t, 10, 8|16|32|64); new(big.Int).SetString(t, 10); "
                    "SetString(t[2:], 16) after a 0x prefix   // observation: p <hex of t> n<hex of ToLower(t), ASCII t only> <ParseInt x4> <ParseUint x4> <SetString10> <0x?> <SetString16>; model = Gozod.ParseInt.*" % raw)
        if p["mode"] == "F":
            return "strconv.FormatInt / FormatUint / (*big.Int).String of %s   // observation: f <hex FormatInt|-> <hex FormatUint|-> <hex big.String>; model = Gozod.ParseInt.formatInt" % p["src"][0]
        x = _go_src(p); t = p["tgt"]
        if p["mode"] == "H":
            h = p["helper"]
            call = {"toInt64": "coerce.ToInt64(%s)", "toInteger": "coerce.ToInteger[" + GO_T[t] + "](%s)", "toFloat64": "coerce.ToFloat64(%s)",
                    "toFloat": "coerce.ToFloat[" + GO_T[t] + "](%s)", "toBool": "coerce.ToBool(%s)", "toString": "coerce.ToString(%s)",
                    "toBigInt": "coerce.ToBigInt(%s)", "to": "coerce.To[" + GO_T[t] + "](%s)"}[h] % x
            return call + "   // coerce = github.com/kaptinlin/gozod/pkg/coerce; " + C.op_comment(op)
        chk = ""
        for cop, bk, bv in p["chain"]:
            if cop == "refine":
                chk += ".Refine(even / whole / true / non-empty, by value kind: harness refinePred)"; continue
            m = {"lt": "Lt", "lte": "Lte", "gt": "Gt", "gte": "Gte", "minlen": "Min", "maxlen": "Max", "mul": "MultipleOf", "prefix": "StartsWith"}[cop]
            if bk == "f64": arg = "math.Float64frombits(%s) /* %r */" % (bv, _f64(bv))
            elif bk == "big": arg = 'bigFromString("%s")' % bv
            elif bk == "h": arg = repr((b"" if bv == "-" else bytes.fromhex(bv)).decode("latin-1"))
            else: arg = bv
            chk += ".%s(%s)" % (m, arg)
        return ("zc.%s()%s.Parse(%s)   // zc = github.com/kaptinlin/gozod/coerce; variant 1 = %sPtr(), 2 = Integer()/Number(); %s; "
                "observation '<that> ~ <gozod.%s()%s.Parse(coerce.To[%s](input))>' (the plain schema on the input itself when it has the type)"
                % (GO_C[t], chk, x, GO_C[t], C.op_comment(op), GO_C[t], chk, GO_T[t]))
    except Exception as e:
        return "see harness/cmd/c17/c17.go (%s)" % e

def satisfies(impl, S):
    """The statement allows a coercion to fail; what it forbids is succeeding with another value
    (or succeeding where an error is required), and a schema disagreeing with the plain schema."""
    if impl == S: return True
    if _differs(impl): return False
    if impl.startswith("err"): return True
    return False

def run(res):
    # translator: regenerate Gen/CoerceDispatch.lean from the working tree, then the proofs over it
    gok, gdetail, gdiff = numgen.regenerate(res, "C17", "CoerceDispatch.lean")
    if not gok:
        C.tie_broken(res, "translator C17/CoerceDispatch", gdetail)
    ok, detail = C.prove(res, MODULES, THEOREMS)
    if not ok:
        C.tie_broken(res, "proof Gozod.Proofs.C17 + C17Dispatch over the regenerated CoerceDispatch", detail + numgen.explain(gdiff))
    data, err = C.correspond(res, "C17")
    if data is None:
        C.tie_broken(res, "correspondence C17/coerce", err)
        return res.finish()
    ops, impl, model, stats = data
    # driver lines are "model \t spec \t flags"; fold "satisfies" into the spec column for C.decide
    spurious, strict, boolwide, blank, nonconf, biginexact, noexact, differ = {}, 0, 0, 0, 0, 0, 0, 0
    folded = []
    for i in range(len(ops)):
        parts = model[i].split("\t")
        if len(parts) != 3:
            folded.append(model[i]); nonconf += 1; continue
        M, S, fl = parts
        im = impl[i]
        if im.startswith("ok"):
            if "R" in fl: strict += 1
            if "B" in fl: boolwide += 1
            if "Z" in fl: blank += 1
        if "X" in fl: biginexact += 1
        if "E" in fl: noexact += 1
        if _differs(im): differ += 1
        if im != S and satisfies(im, S):
            p = parse_op(ops[i])
            k = "%s:%s->%s" % (p["helper"], _cls(p["kind"]), _tcls(p["tgt"]))
            spurious[k] = spurious.get(k, 0) + 1
            S = im
        folded.append(M + "\t" + S)
    C.decide(res, "C17", (ops, impl, folded, stats), key, "C17/coerce", describe=describe)
    res.coverage["rule"] = ("every (source kind, target) pair over: exhaustive int8/uint8 sources (thorough: int16/uint16 through To[T]); per-kind boundary grids "
        "(0, +-1, type limits +-1, 2^k and 2^k+-{1,2,3} for k in 7..63, float64 halfway integers above 2^53; floats: neighbours (Nextafter) of 2^k, "
        "+-0.5 neighbours of every integer limit, MaxFloat32 and the float32 rounding threshold 2^128-2^103 with neighbours, float32 subnormal edge and ties, "
        "+-Inf, NaN, +-0, seeded random patterns; strings: signs, blanks, unicode space, leading zeros, fractions, exponents, hex, underscores, inf/nan words, "
        "limits +-1 of every integer type as text, float text at the float32/float64 overflow and underflow thresholds, bool words; big.Int up to 2^2000; nil and non-numeric values); "
        "targets int8..uint64, float32, float64, bool, string, *big.Int; each through every helper serving the target and To[T]; 60% of grid cases also through a "
        "gozod/coerce schema AND the plain gozod schema on coerce.To[T](input) (value/pointer constructor, 15% pointer inputs) with a chain of up to four checks: a bound next to the expected value, "
        "MultipleOf/Step (integer, float, BigInt targets; divisors 0, +-1, 2, 3, 7, 10, 2^53, MinInt64, the value and its neighbours), a prefix (strings), a user refinement. distinct = distinct op lines.")
    res.coverage["strict_reading_rounded_successes"] = strict
    res.coverage["bool_from_number_other_than_0_1"] = boolwide
    res.coverage["blank_string_read_as_zero"] = blank
    res.coverage["bigint_bounds_where_a_float64_comparison_would_differ"] = biginexact
    res.coverage["checks_without_exact_specification(float MultipleOf: the code's epsilon rule is the oracle)"] = noexact
    res.coverage["schema_lines_where_coercing_and_plain_schema_differ"] = differ
    res.coverage["spurious_failures_allowed_by_statement"] = spurious
    if nonconf: res.notes.append("%d driver lines were not of the form model/spec/flags" % nonconf)
    res.assumptions += [
        "strconv.ParseFloat/FormatFloat and strings.ToLower are parameters of the model; their results are shipped with each case and ParseFloat/FormatFloat are compared with math/big's correctly rounded conversion on the generated strings",
        "strings.TrimSpace, strconv.ParseInt/ParseUint/FormatInt/FormatUint and big.Int.SetString are what Model/ParseInt.lean says (compared field by field on the P/F lines)",
        "float targets are held to 'correctly rounded' (DESIGN 3.6); the strict count (value changed by rounding) is reported as strict_reading_rounded_successes",
        "the blank string denotes 0 / false (library convention pinned by its tests); a number coerces to bool by the documented truthy table (non-zero = true)",
        "amd64: int/uint are 64-bit; int64(float) out of range yields MinInt64 (only reachable in the legacy model and in ToBigInt's round-trip test)",
        "a coercion that fails where it could have succeeded does not violate the statement ('or fails'); such cases are counted, and pinned by the model so that new ones break the tie",
    ]
    return res.finish()
