package main

// Round 4 — type-directed adversarial inputs and nil/zero check parameters.
//
// The hand list of values (values()) feeds every schema the same 118 inputs; what it cannot do is build, for a
// schema whose payload type is *big.Int / time.Time / []T / map / func / multipart file …, the values of THAT type
// which hold a nil where the checks expect a payload:
//
//	typedVals(schema)    from the reflect.Type T of the schema's Parse result (and StrictParse parameter): zero and
//	                     sample values of the innermost type U, every pointer chain over U up to depth 3 ending in a
//	                     value or in a nil at every level (a non-nil **U whose pointee is a nil *U is what reaches
//	                     the checks after the engine's single dereference), typed nils of pointer-like U, *any holding
//	                     each of these (an interface holding a typed nil), named types with the same underlying kind,
//	                     and structs hiding the value in an unexported field.
//	argVariants          every callback-free chaining method is called not only with small valid arguments
//	                     (storex.Call) but also with the ZERO value of every parameter (nil *big.Int bound, nil
//	                     slice of keys, nil map, 0 divisor, "" pattern source …) and with NEGATIVE / extreme scalars.
//	second level         every schema so obtained again under Optional / Nilable / Nullish / Default(zero) /
//	                     Prefault(zero) — a nil default or prefault value is the third road by which a nil reaches
//	                     the checks.

import (
	"fmt"
	"math"
	"math/big"
	"reflect"
	"strings"
	"time"

	"verifharness/hx"
	"verifharness/storex"
)

type (
	nString  string
	nInt     int
	nInt64   int64
	nUint8   uint8
	nFloat64 float64
	nFloat32 float32
	nBool    bool
	nComplex complex128
	nSliceA  []any
	nSliceS  []string
	nSliceI  []int
	nMapSA   map[string]any
	nMapAA   map[any]any
	nMapSS   map[string]string
	nMapSet  map[string]struct{}
	nFunc    func()
	nTime    time.Time
	nBig     big.Int
	nPtrBig  *big.Int
	nAny     any
)

var namedTypes = []reflect.Type{
	reflect.TypeFor[nString](), reflect.TypeFor[nInt](), reflect.TypeFor[nInt64](), reflect.TypeFor[nUint8](),
	reflect.TypeFor[nFloat64](), reflect.TypeFor[nFloat32](), reflect.TypeFor[nBool](), reflect.TypeFor[nComplex](),
	reflect.TypeFor[nSliceA](), reflect.TypeFor[nSliceS](), reflect.TypeFor[nSliceI](), reflect.TypeFor[nMapSA](),
	reflect.TypeFor[nMapAA](), reflect.TypeFor[nMapSS](), reflect.TypeFor[nMapSet](), reflect.TypeFor[nFunc](),
	reflect.TypeFor[nTime](), reflect.TypeFor[nBig](), reflect.TypeFor[nPtrBig](), reflect.TypeFor[time.Duration](),
}

// hidden holds its payload in unexported fields (reflection may read but not Interface() them).
type hidden struct {
	a any
	p *int
	s []int
	m map[string]int
	f func()
	E string
}

// mixed has exported and unexported fields, pointers to nil, interfaces holding typed nils.
type mixed struct {
	Name  string `json:"name"`
	Age   *int   `json:"age"`
	Any   any    `json:"any"`
	Big   *big.Int
	When  *time.Time
	Tags  []string
	Attrs map[string]any
	Fn    func()
	inner hidden
	Next  *mixed
}

// sampleOf builds a small non-zero value of type t.
func sampleOf(t reflect.Type, d int) reflect.Value {
	switch t {
	case reflect.TypeFor[big.Int]():
		return reflect.ValueOf(*big.NewInt(7))
	case reflect.TypeFor[time.Time]():
		return reflect.ValueOf(time.Unix(86400, 0).UTC())
	}
	v := reflect.New(t).Elem()
	switch t.Kind() {
	case reflect.Int, reflect.Int8, reflect.Int16, reflect.Int32, reflect.Int64:
		v.SetInt(3)
	case reflect.Uint, reflect.Uint8, reflect.Uint16, reflect.Uint32, reflect.Uint64, reflect.Uintptr:
		v.SetUint(3)
	case reflect.Float32, reflect.Float64:
		v.SetFloat(2.5)
	case reflect.Complex64, reflect.Complex128:
		v.SetComplex(complex(1, 2))
	case reflect.String:
		v.SetString("ab")
	case reflect.Bool:
		v.SetBool(true)
	case reflect.Slice:
		if d < 3 {
			s := reflect.MakeSlice(t, 1, 1)
			s.Index(0).Set(sampleOf(t.Elem(), d+1))
			v.Set(s)
		} else {
			v.Set(reflect.MakeSlice(t, 0, 0))
		}
	case reflect.Array:
		for i := 0; i < t.Len() && d < 3; i++ {
			v.Index(i).Set(sampleOf(t.Elem(), d+1))
		}
	case reflect.Map:
		m := reflect.MakeMap(t)
		if d < 3 {
			k := sampleOf(t.Key(), d+1)
			_ = hx.Safely(func() { m.SetMapIndex(k, sampleOf(t.Elem(), d+1)) })
		}
		v.Set(m)
	case reflect.Pointer:
		if d < 3 {
			p := reflect.New(t.Elem())
			p.Elem().Set(sampleOf(t.Elem(), d+1))
			v.Set(p)
		}
	case reflect.Interface:
		if t.NumMethod() == 0 {
			v.Set(reflect.ValueOf("x"))
		}
	case reflect.Func:
		v.Set(reflect.MakeFunc(t, func([]reflect.Value) []reflect.Value {
			out := make([]reflect.Value, t.NumOut())
			for i := range out {
				out[i] = reflect.Zero(t.Out(i))
			}
			return out
		}))
	case reflect.Chan:
		if t.ChanDir() == reflect.BothDir {
			v.Set(reflect.MakeChan(t, 1))
		}
	case reflect.Struct:
		for i := 0; i < t.NumField() && d < 3; i++ {
			if f := v.Field(i); f.CanSet() {
				f.Set(sampleOf(t.Field(i).Type, d+1))
			}
		}
	}
	return v
}

func ptrTo(v reflect.Value) reflect.Value {
	p := reflect.New(v.Type())
	p.Elem().Set(v)
	return p
}

func nilLike(k reflect.Kind) bool {
	switch k {
	case reflect.Pointer, reflect.Slice, reflect.Map, reflect.Func, reflect.Chan, reflect.Interface:
		return true
	}
	return false
}

// adversarial builds the type-directed value set of a payload type T.
func adversarial(T reflect.Type) []val {
	U := T
	for U.Kind() == reflect.Pointer {
		U = U.Elem()
	}
	var out []val
	seen := map[string]bool{}
	add := func(name string, v reflect.Value) {
		if !v.IsValid() || !v.CanInterface() || seen[name] {
			return
		}
		seen[name] = true
		rawVals[name] = true
		out = append(out, val{name, v.Interface()})
	}
	us := U.String()
	zero, smp := reflect.Zero(U), sampleOf(U, 0)
	add("zero("+us+")", zero)
	add("sample("+us+")", smp)
	// pointer chains: depth stars over U, ending in the sample, in the zero value, or in a nil pointer at level nilAt
	for depth := 1; depth <= 3; depth++ {
		stars := strings.Repeat("*", depth)
		for _, base := range []struct {
			n string
			v reflect.Value
		}{{"sample", smp}, {"zero", zero}} {
			v := base.v
			for range depth {
				v = ptrTo(v)
			}
			add(fmt.Sprintf("%s%s->%s", stars, us, base.n), v)
		}
		for nilAt := 1; nilAt <= depth; nilAt++ {
			// the pointer type with nilAt stars is nil; (depth-nilAt) non-nil pointers lead to it
			pt := U
			for range nilAt {
				pt = reflect.PointerTo(pt)
			}
			v := reflect.Zero(pt)
			for range depth - nilAt {
				v = ptrTo(v)
			}
			add(fmt.Sprintf("%s%s->nil@%d", stars, us, nilAt), v)
		}
	}
	// interfaces holding these (a *any whose content is a typed nil, a nil pointer chain …)
	for _, b := range append([]val(nil), out...) {
		p := new(any)
		*p = b.v
		add("*any{"+b.name+"}", reflect.ValueOf(p))
	}
	// named types with the same underlying kind
	for _, nt := range namedTypes {
		if nt == U || nt.Kind() != U.Kind() || !U.ConvertibleTo(nt) {
			continue
		}
		var c reflect.Value
		if hx.Safely(func() { c = smp.Convert(nt) }) != "" {
			continue
		}
		add("named:"+nt.String(), c)
		add("*named:"+nt.String(), ptrTo(c))
		add("zero-named:"+nt.String(), reflect.Zero(nt))
		if nilLike(nt.Kind()) {
			add("*zero-named:"+nt.String(), ptrTo(reflect.Zero(nt)))
		}
	}
	// the value hidden in a struct's unexported field, and a struct type mixing both
	if smp.CanInterface() {
		add("hidden{"+us+"}", reflect.ValueOf(hidden{a: smp.Interface(), E: "e"}))
		add("*hidden{"+us+"}", reflect.ValueOf(&hidden{a: zero.Interface()}))
		add("[]any{zero,nil-chain}", reflect.ValueOf([]any{zero.Interface(), reflect.Zero(reflect.PointerTo(U)).Interface(), ptrTo(reflect.Zero(reflect.PointerTo(U))).Interface()}))
		add("map{v:nil-chain}", reflect.ValueOf(map[string]any{"a": ptrTo(reflect.Zero(reflect.PointerTo(U))).Interface(), "t": zero.Interface(), "name": reflect.Zero(reflect.PointerTo(U)).Interface()}))
	}
	return out
}

// payloadTypes are the static types a schema declares: the result of Parse and the parameter of StrictParse.
func payloadTypes(z any) []reflect.Type {
	var ts []reflect.Type
	rv := reflect.ValueOf(z)
	if m := rv.MethodByName("Parse"); m.IsValid() && m.Type().NumOut() > 0 {
		ts = append(ts, m.Type().Out(0))
	}
	if m := rv.MethodByName("StrictParse"); m.IsValid() && m.Type().NumIn() > 0 {
		if t := m.Type().In(0); len(ts) == 0 || ts[0] != t {
			ts = append(ts, t)
		}
	}
	return ts
}

var advCache = map[reflect.Type][]val{}

func typedVals(z any) []val {
	var out []val
	for _, t := range payloadTypes(z) {
		if t.Kind() == reflect.Interface { // `any` payload: nothing to direct the construction
			continue
		}
		vs, ok := advCache[t]
		if !ok {
			vs = adversarial(t)
			advCache[t] = vs
		}
		out = append(out, vs...)
	}
	return out
}

// extraVals: adversarial values that do not depend on the schema (added to the common value list).
func extraVals() []val {
	n := 3
	var nilBig *big.Int
	var nilTime *time.Time
	var nilAny any = (*int)(nil)
	mx := mixed{Name: "n", Age: nil, Any: (*big.Int)(nil), Big: nil, When: nil, Tags: nil, Attrs: nil, Fn: nil, inner: hidden{a: []int{1}}}
	mx2 := mixed{Name: "n", Age: &n, Any: nilAny, Big: big.NewInt(1), Attrs: map[string]any{"k": (*int)(nil)}, Fn: func() {}, Next: &mixed{}}
	return []val{
		{"**big.Int->nil@1", &nilBig}, {"***big.Int->nil@1", func() ***big.Int { p := &nilBig; return &p }()},
		{"**time.Time->nil@1", &nilTime}, {"*any{(*int)(nil)}", &nilAny}, {"any{(*big.Int)(nil)}", any(nilBig)},
		{"hidden{}", hidden{}}, {"hidden{full}", hidden{a: []int{1}, p: &n, s: []int{1}, m: map[string]int{"a": 1}, f: func() {}, E: "e"}},
		{"*hidden", &hidden{a: map[string]any{}}}, {"map{t:hidden}", map[string]any{"t": hidden{a: 1}, "a": hidden{}, "name": hidden{}}},
		{"[]any{hidden}", []any{hidden{a: []int{1}}, &hidden{}}}, {"[]hidden", []hidden{{}, {a: 1}}},
		{"mixed{nils}", mx}, {"mixed{typed-nils}", mx2}, {"*mixed", &mx2}, {"**mixed->nil@1", func() **mixed { var p *mixed; return &p }()},
		{"map{name,age:(*int)(nil)}", map[string]any{"name": "n", "age": (*int)(nil), "a": (*string)(nil), "b": (*int)(nil), "t": (*string)(nil)}},
		{"map{name:**string->nil}", map[string]any{"name": func() **string { var p *string; return &p }(), "a": func() **string { var p *string; return &p }()}},
		{"[]*string{nil}", []*string{nil}}, {"[]**int{->nil}", func() []**int { var p *int; return []**int{&p, nil} }()},
		{"map[string]*int{nil}", map[string]*int{"a": nil}}, {"map[*int]string{nil-key}", map[*int]string{nil: "a"}},
		{"[]func(){nil}", []func(){nil}}, {"[]any{typed-nil-map}", []any{map[string]any(nil), []any(nil), (func())(nil), (chan int)(nil), (*any)(nil)}},
		{"[0]int", [0]int{}}, {"[]struct{}", []struct{}{{}, {}}}, {"map[struct{}]struct{}", map[struct{}]struct{}{{}: {}}},
		{"nString", nString("a")}, {"nInt", nInt(1)}, {"nFloat64-NaN", nFloat64(math.NaN())}, {"nBool", nBool(true)}, {"nSliceA", nSliceA{1, "a"}},
		{"nMapSA", nMapSA{"t": "a", "a": "x"}}, {"nMapSA(nil)", nMapSA(nil)}, {"nSliceA(nil)", nSliceA(nil)}, {"nFunc(nil)", nFunc(nil)}, {"nPtrBig(nil)", nPtrBig(nil)},
		{"nTime", nTime(time.Unix(0, 0))}, {"nBig", nBig(*big.NewInt(2))}, {"*nBig", func() *nBig { b := nBig(*big.NewInt(2)); return &b }()},
		{"nAny(nil)", nAny(nil)}, {"MaxInt64", int64(math.MaxInt64)}, {"MaxFloat64", math.MaxFloat64}, {"SmallestNonzero", math.SmallestNonzeroFloat64},
		{"big-2^70", new(big.Int).Lsh(big.NewInt(1), 70)}, {"big-neg", big.NewInt(-5)}, {"big-zero-value", new(big.Int)},
		{"time-zero", time.Time{}}, {"*time-zero", &time.Time{}}, {"time-far", time.Unix(1<<40, 0)},
		{"long-string", strings.Repeat("ä", 5000)}, {"nul-string", "a\x00b"},
	}
}

// ---------------------------------------------------------------------------------------------------------------
// argument variants

var tErr = reflect.TypeFor[error]()

// extremeArg: negative / extreme scalars, typed nils for everything pointer-like.
func extremeArg(t reflect.Type, mode string) reflect.Value {
	v := reflect.New(t).Elem()
	if mode == "zero" {
		return v
	}
	switch t.Kind() {
	case reflect.Int, reflect.Int8, reflect.Int16, reflect.Int32, reflect.Int64:
		if mode == "neg" {
			v.SetInt(-1)
		} else {
			v.SetInt(int64(1)<<(t.Bits()-1) - 1)
		}
	case reflect.Uint, reflect.Uint8, reflect.Uint16, reflect.Uint32, reflect.Uint64:
		if mode != "neg" {
			v.SetUint(^uint64(0) >> (64 - t.Bits()))
		}
	case reflect.Float32, reflect.Float64:
		if mode == "neg" {
			v.SetFloat(-1.5)
		} else {
			v.SetFloat(math.NaN())
		}
	case reflect.String:
		if mode == "neg" {
			v.SetString("(")
		} else {
			v.SetString("\xff")
		}
	case reflect.Pointer:
		if mode == "big" && t.Elem() == reflect.TypeFor[big.Int]() {
			v.Set(reflect.ValueOf(new(big.Int).Lsh(big.NewInt(1), 200)))
		}
	case reflect.Slice:
		if mode == "big" {
			v.Set(reflect.MakeSlice(t, 0, 0))
		}
	case reflect.Map:
		if mode == "big" {
			v.Set(reflect.MakeMap(t))
		}
	}
	return v
}

// callMode calls recv.name with the fixed parameters built by extremeArg (variadic tail empty). Parameters that name a
// member SCHEMA keep a valid schema: a nil member schema is a misuse the statement does not speak about.
func callMode(recv any, name, mode string) (storex.Schema, bool) {
	rv := reflect.ValueOf(recv)
	m := rv.MethodByName(name)
	if !m.IsValid() {
		return nil, false
	}
	mt := m.Type()
	nIn := mt.NumIn()
	if mt.IsVariadic() {
		nIn--
	}
	if nIn == 0 {
		return nil, false // nothing to vary: storex.Call has covered it
	}
	args := make([]reflect.Value, 0, nIn)
	for i := range nIn {
		t := mt.In(i)
		if t.Kind() == reflect.Interface || t.Kind() == reflect.Func || t == rv.Type() {
			sv := storex.SynthArgs(rv, name, mt, 0)
			if i < len(sv) {
				args = append(args, sv[i])
				continue
			}
		}
		args = append(args, extremeArg(t, mode))
	}
	var outs []reflect.Value
	if p := hx.Safely(func() { outs = m.Call(args) }); p != "" {
		return nil, false // a constructor that refuses its arguments by panicking is outside "Parse is total"
	}
	for _, o := range outs {
		if o.Type().Implements(tErr) && !o.IsNil() {
			return nil, false
		}
	}
	for _, o := range outs {
		if s, ok := storex.AsSchema(o); ok {
			return s, true
		}
	}
	return nil, false
}

var modifierNames = []string{"Nilable"}

// secondLevel: d under the nil-admitting modifiers and under Default / Prefault with zero and sample values.
func secondLevel(d any) []named2 {
	var out []named2
	for _, n := range modifierNames {
		if s, ok, _ := storex.Call(d, n, 0); ok {
			out = append(out, named2{n + "()", s})
		}
	}
	for _, n := range []string{"Default", "Prefault"} {
		if s, ok := callMode(d, n, "zero"); ok {
			out = append(out, named2{n + "(zero)", s})
		}
	}
	return out
}

type named2 struct {
	name string
	z    any
}
