"""Regenerates MANIFEST.json from the per-property table below (run: python3 -m vlib.manifest_gen)."""
import json, os
from . import common as C

CLAIMED = {
 "C16": dict(
   technique="Lean 4 proof (exactness of compareNumeric/cmpIntFloat/multipleOfInts over all of Int and all dyadic floats) + differential correspondence model vs pkg/validate and real numeric schemas",
   text="Theorems c16_cmp / c16_int_cmp / c16_int_float_cmp / c16_multiple_int prove, for every operand pair of every Go numeric kind, that the transcribed comparison and integer-multiple algorithms equal the mathematical relation (NaN unordered). The hand-written model is tied to /repo by running both on exhaustive 8-bit (thorough: 16-bit) enumerations and a 2^k-boundary grid over all 144 kind pairs, directly and through real schemas.",
   note="Trusted: Lean kernel; axioms propext/Classical.choice/Quot.sound only; the Go harness and comparer; Go float64 operators and math.Trunc being IEEE-754. Float MultipleOf (documented epsilon rule) is not modelled. The model is a hand transcription validated on generated cases, not for all inputs.",
   design="DESIGN.md §5 C16"),
}

ALL = ["C%02d" % i for i in range(1, 21)]
NOT_YET = "check not built yet in this round (planned: see DESIGN.md §5); no claim is made"

def main():
    checks = []
    for pid in ALL:
        if pid not in CLAIMED: continue
        c = CLAIMED[pid]
        checks.append({
            "property_id": pid,
            "quick_cmd": "./check %s quick" % pid,
            "thorough_cmd": "./check %s thorough" % pid,
            "evidence_file": "/verif/evidence/%s.json" % pid,
            "replay_cmd_template": "./check %s --replay {path}" % pid,
            "engine": "lean-model+go-harness",
            "level_claimed": {"category": c.get("category", "proof"), "text": c["text"], "design_ref": c["design"]},
            "level_note": c["note"],
            "technique": c["technique"],
        })
    na = [{"property_id": p, "reason": NA.get(p, NOT_YET)} for p in ALL if p not in CLAIMED]
    hooks_commits = []
    man = {
        "version": 1,
        "setup_cmd": "./check --setup",
        "hooks": {
            "guard": "verif",
            "enable": "go build -tags verif (the harness module /verif/harness replaces github.com/kaptinlin/gozod with /repo)",
            "baseline_off_cmd": "cd /repo && GOFLAGS=-mod=mod GOPROXY=off go test -vet=off -count=1 ./...",
            "source_commits": HOOK_COMMITS,
            "add_only": True,
        },
        "engines": [{
            "name": "lean-model+go-harness", "path": "/verif/check",
            "serves_properties": sorted(CLAIMED),
            "kind_free_text": "Lean 4 model + theorems (lean/Gozod), Go differential harness (harness/), Python orchestrator (check, vlib/)",
        }],
        "checks": checks,
        "not_applicable": na,
        "notes": "Every claimed check: lake build of the property's proof module + #print axioms audit + forbidden-token grep, then a Go<->Lean line-protocol correspondence run against /repo's working tree. See DESIGN.md.",
    }
    with open(os.path.join(C.VERIF, "MANIFEST.json"), "w") as f:
        json.dump(man, f, indent=1)
    print("MANIFEST.json: %d claimed, %d not applicable" % (len(checks), len(na)))

NA = {}
HOOK_COMMITS = []

if __name__ == "__main__":
    main()
