/-
  C11 — `format` documents: what FromJSONSchema builds for `{"type":"string","format":F}` and what ToJSONSchema writes
  for that schema (round 4c, AUDIT-B H6).

  * `getFormatSchema` — transcription of jsonschema/from.go `getFormatSchema` (the switch over the format name).
  * `FId.parses`      — the verdict of the dedicated schema's validator, through C20's model of it: every validating regex
                        of C20's REGENERATED table (Gen/Regexes.lean `table`: `vals`) and, for parser-validated formats,
                        C20's transcription of the parser (`Parsers.goDate`, `Parsers.goRFC3339`, `Netip.ipv6`).
                        `none` = C20 has no model of the recogniser (Email(), URL()): decided by the run only.
  * `FId.emitName` / `FId.patOK` — what to.go writes for the schema: `{type:string, format:<Bag["format"]>, pattern:<exported>}`
                        (`applyStringBag`): the bag's format name and C20's regenerated exported patterns (`pats`).
  * `rtFmtValid`      — validity against that round-trip document, given the validator's verdict `v` on the format keyword:
                        a name the validator does not know (`iso_date`, `iso_datetime`, `iso_time`) fails under format
                        assertion; a kept name asserts what the original asserted.
-/
import Gozod.Model.FromJson
import Gozod.Model.FormatSpec
import Gozod.Model.FormatSpecV6
import Gozod.Model.GoParsers
import Gozod.Model.GoNetip
import Gozod.Gen.Regexes
namespace Gozod.Jsc

inductive FId
  | email | uuid | url | dateTime | date | time | ipv4 | ipv6
  deriving DecidableEq, Repr

/-- `getFormatSchema` (from.go): Email(), UUID(), URL(), IsoDateTime(), IsoDate(), IsoTime(), IPv4(), IPv6(); anything else
    falls back to the plain string. -/
def getFormatSchema : String → Option FId
  | "email" => some .email
  | "uuid" => some .uuid
  | "uri" => some .url
  | "url" => some .url
  | "date-time" => some .dateTime
  | "date" => some .date
  | "time" => some .time
  | "ipv4" => some .ipv4
  | "ipv6" => some .ipv6
  | _ => none

/-- the `format` keyword to.go writes for the dedicated schema: `internals.Bag["format"]`, set by the format check
    (internal/checks/format.go: "email", "uuid", "uri" for URL(), "iso_datetime", "iso_date", "iso_time", "ipv4", "ipv6"). -/
def FId.emitName : FId → String
  | .email => "email" | .uuid => "uuid" | .url => "uri" | .dateTime => "iso_datetime" | .date => "iso_date"
  | .time => "iso_time" | .ipv4 => "ipv4" | .ipv6 => "ipv6"

/-- the JSON Schema name(s) FromJSONSchema maps to the schema. -/
def FId.jsonName : FId → String
  | .email => "email" | .uuid => "uuid" | .url => "uri" | .dateTime => "date-time" | .date => "date"
  | .time => "time" | .ipv4 => "ipv4" | .ipv6 => "ipv6"

/-- the row of C20's regenerated table that describes the schema's check. -/
def FId.c20 : FId → Option String
  | .uuid => some "uuid" | .dateTime => some "isodatetime" | .date => some "isodate" | .time => some "isotime"
  | .ipv4 => some "ipv4" | .ipv6 => some "ipv6" | .email => none | .url => none

def FId.entry (f : FId) : Option Gen.Entry := f.c20.bind (fun n => Gen.table.lookup n)

/-- C20's transcription of the parser a parser-validated format runs (regex-validated formats have none). -/
def FId.parser : FId → List Nat → Bool
  | .ipv6 => Netip.ipv6
  | .date => Parsers.goDate
  | .dateTime => Parsers.goRFC3339
  | _ => fun _ => true

/-- ParseAny verdict of the dedicated schema on the string with bytes `s`. -/
def FId.parses (f : FId) (s : List Nat) : Option Bool :=
  f.entry.map (fun e => e.vals.all (fun r => Re.accepts r s) && f.parser s)

/-- the exported pattern(s) of the round-trip document match `s`. -/
def FId.patOK (f : FId) (s : List Nat) : Option Bool :=
  f.entry.map (fun e => e.pats.all (fun r => Re.accepts r s))

/-- ToJSONSchema keeps the JSON Schema name of the format. -/
def FId.nameKept (f : FId) : Bool := f.emitName == f.jsonName

/-- validity of the string against `{type:string, format:emitName, pattern:…}` under format assertion; `v` = the
    validator's verdict on the ORIGINAL format keyword. -/
def rtFmtValid (f : FId) (v : Bool) (s : List Nat) : Option Bool :=
  (f.patOK s).map (fun p => f.nameKept && v && p)

end Gozod.Jsc
