/-
  Gozod.Model.Bisim — step automata (the shape of every C20 format specification), and the
  checker for a bisimulation certificate between a regular expression and a step automaton.

  `check S E r0 cert = true` is decided by kernel evaluation on a literal certificate that the
  driver computes outside the kernel (`driver_c20 --emit-cert`).  `bisim_sound` (in
  Proofs/C20Bisim.lean) turns it into `∀ s, E.run s = false → accepts r0 s = S.run s`.
  `E` is a second automaton describing an excluded region (for `_partial` theorems);
  `Spec.never` excludes nothing.

  Core-only.
-/
import Gozod.Model.Regex
namespace Gozod

/-- A deterministic step automaton over bytes: the readable form of a format definition.
    A byte outside `support` (the format's alphabet) rejects; so does `step = none`. -/
structure Spec where
  State : Type
  /-- equality test on states (a Bool function: cheap for the kernel to evaluate) -/
  beq : State → State → Bool
  beq_eq : ∀ a b, beq a b = true → a = b
  init : State
  support : List Nat
  step : State → Nat → Option State
  acc : State → Bool
  /-- any numbering of the states (only used to index certificates) -/
  code : State → Nat
  /-- Lean source text of a state (only used to print certificates) -/
  pp : State → String

namespace Spec

def beqO (S : Spec) : Option S.State → Option S.State → Bool
  | .none, .none => true
  | .some a, .some b => S.beq a b
  | _, _ => false

theorem beqO_eq (S : Spec) : ∀ a b, S.beqO a b = true → a = b
  | .none, .none, _ => rfl
  | .some a, .some b, h => by rw [S.beq_eq a b h]
  | .none, .some _, h => by cases h
  | .some _, .none, h => by cases h

/-- `gstep` for a byte already known to be in the alphabet -/
def stepO (S : Spec) : Option S.State → Nat → Option S.State
  | .none, _ => .none
  | .some q, c => S.step q c

def gstep (S : Spec) : Option S.State → Nat → Option S.State
  | .none, _ => .none
  | .some q, c => if S.support.elem c then S.step q c else .none

def runState (S : Spec) (s : List Nat) : Option S.State := s.foldl S.gstep (some S.init)

def accO (S : Spec) : Option S.State → Bool
  | .none => false
  | .some q => S.acc q

/-- the format's recogniser -/
def run (S : Spec) (s : List Nat) : Bool := S.accO (S.runState s)

def codeO (S : Spec) : Option S.State → Nat
  | .none => 0
  | .some q => S.code q + 1

/-- the automaton that excludes nothing -/
def never : Spec where
  State := Unit
  beq := fun _ _ => true
  beq_eq := fun _ _ _ => rfl
  init := ()
  support := []
  step := fun _ _ => some ()
  acc := fun _ => false
  code := fun _ => 0
  pp := fun _ => "()"

end Spec

/-! ## search trees keyed by naturals (certificate index) -/

inductive Tree (α : Type) where
  | leaf
  | node (l : Tree α) (key : Nat) (val : α) (r : Tree α)

namespace Tree
variable {α : Type}

def find (k : Nat) : Tree α → Option α
  | leaf => none
  | node l key v r =>
    match Nat.blt k key with
    | true => find k l
    | false => match Nat.blt key k with
      | true => find k r
      | false => some v

def all (p : α → Bool) : Tree α → Bool
  | leaf => true
  | node l _ v r => all p l && p v && all p r

def Mem (x : α) : Tree α → Prop
  | leaf => False
  | node l _ v r => Mem x l ∨ v = x ∨ Mem x r

def size : Tree α → Nat
  | leaf => 0
  | node l _ _ r => size l + 1 + size r

theorem all_mem {p : α → Bool} {x : α} : ∀ {t : Tree α}, all p t = true → Mem x t → p x = true
  | leaf, _, h => by cases h
  | node l _ v r, h, hm => by
    simp [all] at h
    rcases hm with hm | hm | hm
    · exact all_mem h.1.1 hm
    · rw [← hm]; exact h.1.2
    · exact all_mem h.2 hm

theorem find_mem {k : Nat} {x : α} : ∀ {t : Tree α}, find k t = some x → Mem x t
  | leaf, h => by simp [find] at h
  | node l key v r, h => by
    simp only [find] at h
    split at h
    · exact Or.inl (find_mem h)
    · split at h
      · exact Or.inr (Or.inr (find_mem h))
      · simp at h; exact Or.inr (Or.inl h)

end Tree

/-! ## certificates -/

def nth {α : Type} : List α → Nat → Option α
  | [], _ => none
  | x :: _, 0 => some x
  | _ :: xs, n + 1 => nth xs n

/-- `p` on the two lists position by position; false when the lengths differ -/
def zipAll {α β : Type} (p : α → β → Bool) : List α → List β → Bool
  | [], [] => true
  | a :: as, b :: bs => p a b && zipAll p as bs
  | _, _ => false

def pair (a b : Nat) : Nat := (a + b) * (a + b + 1) / 2 + b

/-- a reachable triple: state `i` of the pattern's derivative automaton, state of the
    specification, state of the exclusion automaton -/
structure PNode (S E : Spec) where
  i : Nat
  q : Option S.State
  e : Option E.State

def PNode.key {S E : Spec} (n : PNode S E) : Nat := pair n.i (pair (S.codeO n.q) (E.codeO n.e))

def PNode.beq {S E : Spec} (a b : PNode S E) : Bool :=
  Nat.beq a.i b.i && S.beqO a.q b.q && E.beqO a.e b.e

structure Cert (S E : Spec) where
  /-- the derivatives of the pattern reachable over `S.support` (state 0 = the pattern) -/
  D : List Re
  /-- `tbl[i][k]` = index in `D` of `deriv support[k] D[i]` -/
  tbl : List (List Nat)
  /-- reachable product states, as a search tree on `PNode.key` -/
  tree : Tree (PNode S E)

namespace Cert
variable {S E : Spec}

def derivAt (D : List Re) (r : Re) (c j : Nat) : Bool :=
  match nth D j with
  | some r' => Re.beq (Re.deriv c r) r'
  | none => false

/-- every `D[i]` only mentions bytes of the alphabet, and row `i` of the table is right -/
def checkDfa (sup : List Nat) (D : List Re) : List Re → List (List Nat) → Bool :=
  zipAll (fun r row => Re.covered sup r && zipAll (derivAt D r) sup row)

def inTree (t : Tree (PNode S E)) (n : PNode S E) : Bool :=
  match t.find n.key with
  | some m => m.beq n
  | none => false

def checkNode (c : Cert S E) (n : PNode S E) : Bool :=
  match nth c.D n.i, nth c.tbl n.i with
  | some r, some row =>
    (E.accO n.e || (Re.nullable r == S.accO n.q)) &&
      zipAll (fun b j => inTree c.tree ⟨j, S.stepO n.q b, E.gstep n.e b⟩) S.support row
  | _, _ => false

def check (r0 : Re) (c : Cert S E) : Bool :=
  (match nth c.D 0 with | some r => Re.beq r r0 | none => false) &&
  checkDfa S.support c.D c.D c.tbl &&
  inTree c.tree ⟨0, some S.init, some E.init⟩ &&
  c.tree.all c.checkNode

end Cert
end Gozod
